"""Numeral generators (integer -> standard written form) per culture, written independently of the
library.  Each returns a list of spelling variants for n.  Only cardinal forms except English and the
regular ordinal systems (zh/ja prefix)."""

# ---------------------------------------------------------------- English
EN_ONES = ['zero', 'one', 'two', 'three', 'four', 'five', 'six', 'seven', 'eight', 'nine', 'ten', 'eleven', 'twelve', 'thirteen',
           'fourteen', 'fifteen', 'sixteen', 'seventeen', 'eighteen', 'nineteen']
EN_TENS = ['', '', 'twenty', 'thirty', 'forty', 'fifty', 'sixty', 'seventy', 'eighty', 'ninety']
EN_SCALES = ['', 'thousand', 'million', 'billion', 'trillion']
EN_ORD = {'one': 'first', 'two': 'second', 'three': 'third', 'five': 'fifth', 'eight': 'eighth', 'nine': 'ninth', 'twelve': 'twelfth'}


def _en_below_1000(n, use_and, hyphen):
    parts = []
    h, r = divmod(n, 100)
    if h:
        parts.append(EN_ONES[h] + ' hundred')
    if r:
        if h and use_and:
            parts.append('and')
        if r < 20:
            parts.append(EN_ONES[r])
        else:
            t, o = divmod(r, 10)
            parts.append(EN_TENS[t] + ((('-' if hyphen else ' ') + EN_ONES[o]) if o else ''))
    return ' '.join(parts)


def english(n, use_and=False, hyphen=True):
    if n == 0:
        return 'zero'
    groups = []
    k = 0
    while n:
        n, g = divmod(n, 1000)
        groups.append((g, k))
        k += 1
    words = []
    for g, k in reversed(groups):
        if not g:
            continue
        w = _en_below_1000(g, use_and, hyphen)
        if k == 0 and use_and and g < 100 and words:
            w = 'and ' + w
        words.append(w + (' ' + EN_SCALES[k] if k else ''))
    return ' '.join(words)


def english_ordinal(n, use_and=False, hyphen=True):
    w = english(n, use_and, hyphen)
    head, sep, last = w.rpartition(' ')
    pre = ''
    if '-' in last:
        pre, _, last = last.rpartition('-')
        pre += '-'
    if last in EN_ORD:
        last = EN_ORD[last]
    elif last.endswith('y'):
        last = last[:-1] + 'ieth'
    else:
        last = last + 'th'
    return head + sep + pre + last


# ---------------------------------------------------------------- Spanish
ES_ONES = ['cero', 'uno', 'dos', 'tres', 'cuatro', 'cinco', 'seis', 'siete', 'ocho', 'nueve', 'diez', 'once', 'doce', 'trece',
           'catorce', 'quince', 'dieciséis', 'diecisiete', 'dieciocho', 'diecinueve', 'veinte', 'veintiuno', 'veintidós',
           'veintitrés', 'veinticuatro', 'veinticinco', 'veintiséis', 'veintisiete', 'veintiocho', 'veintinueve']
ES_TENS = ['', '', '', 'treinta', 'cuarenta', 'cincuenta', 'sesenta', 'setenta', 'ochenta', 'noventa']
ES_HUND = ['', 'ciento', 'doscientos', 'trescientos', 'cuatrocientos', 'quinientos', 'seiscientos', 'setecientos', 'ochocientos',
           'novecientos']


def _es_below_1000(n):
    if n == 100:
        return 'cien'
    parts = []
    h, r = divmod(n, 100)
    if h:
        parts.append(ES_HUND[h])
    if r:
        if r < 30:
            parts.append(ES_ONES[r])
        else:
            t, o = divmod(r, 10)
            parts.append(ES_TENS[t] + (' y ' + ES_ONES[o] if o else ''))
    return ' '.join(parts)


def spanish(n):
    if n < 1000:
        return _es_below_1000(n) if n else 'cero'
    if n < 10 ** 6:
        th, r = divmod(n, 1000)
        head = 'mil' if th == 1 else _es_apocope(_es_below_1000(th)) + ' mil'
        return head + (' ' + _es_below_1000(r) if r else '')
    if n < 10 ** 12:
        mi, r = divmod(n, 10 ** 6)
        head = 'un millón' if mi == 1 else _es_apocope(spanish(mi)) + ' millones'
        return head + (' ' + spanish(r) if r else '')
    bi, r = divmod(n, 10 ** 12)
    head = 'un billón' if bi == 1 else _es_apocope(spanish(bi)) + ' billones'
    return head + (' ' + spanish(r) if r else '')


def _es_apocope(w):
    if w.endswith('veintiuno'):
        return w[:-len('veintiuno')] + 'veintiún'
    if w.endswith('uno'):
        return w[:-3] + 'un'
    return w


# ---------------------------------------------------------------- French
FR_ONES = ['zéro', 'un', 'deux', 'trois', 'quatre', 'cinq', 'six', 'sept', 'huit', 'neuf', 'dix', 'onze', 'douze', 'treize',
           'quatorze', 'quinze', 'seize', 'dix-sept', 'dix-huit', 'dix-neuf']
FR_TENS = ['', '', 'vingt', 'trente', 'quarante', 'cinquante', 'soixante']


def _fr_below_100(n):
    if n < 20:
        return FR_ONES[n]
    if n < 70:
        t, o = divmod(n, 10)
        if o == 0:
            return FR_TENS[t]
        if o == 1:
            return FR_TENS[t] + ' et un'
        return FR_TENS[t] + '-' + FR_ONES[o]
    if n < 80:
        return 'soixante et onze' if n == 71 else 'soixante-' + FR_ONES[n - 60]
    if n == 80:
        return 'quatre-vingts'
    return 'quatre-vingt-' + FR_ONES[n - 80]


def _fr_below_1000(n):
    h, r = divmod(n, 100)
    if not h:
        return _fr_below_100(r)
    head = 'cent' if h == 1 else FR_ONES[h] + (' cents' if not r else ' cent')
    return head + (' ' + _fr_below_100(r) if r else '')


def french(n):
    if n < 1000:
        return _fr_below_1000(n)
    if n < 10 ** 6:
        th, r = divmod(n, 1000)
        head = 'mille' if th == 1 else _fr_no_plural(_fr_below_1000(th)) + ' mille'
        return head + (' ' + _fr_below_1000(r) if r else '')
    if n < 10 ** 9:
        mi, r = divmod(n, 10 ** 6)
        head = 'un million' if mi == 1 else _fr_below_1000(mi) + ' millions'
        return head + (' ' + french(r) if r else '')
    bi, r = divmod(n, 10 ** 9)
    head = 'un milliard' if bi == 1 else french(bi) + ' milliards'
    return head + (' ' + french(r) if r else '')


def _fr_no_plural(w):
    if w.endswith('cents'):
        return w[:-1]
    if w.endswith('quatre-vingts'):
        return w[:-1]
    return w


# ---------------------------------------------------------------- German
DE_ONES = ['null', 'eins', 'zwei', 'drei', 'vier', 'fünf', 'sechs', 'sieben', 'acht', 'neun', 'zehn', 'elf', 'zwölf', 'dreizehn',
           'vierzehn', 'fünfzehn', 'sechzehn', 'siebzehn', 'achtzehn', 'neunzehn']
DE_TENS = ['', '', 'zwanzig', 'dreißig', 'vierzig', 'fünfzig', 'sechzig', 'siebzig', 'achtzig', 'neunzig']


def _de_below_100(n, final=True):
    if n < 20:
        return DE_ONES[n] if (n != 1 or final) else 'ein'
    t, o = divmod(n, 10)
    if not o:
        return DE_TENS[t]
    return ('ein' if o == 1 else DE_ONES[o]) + 'und' + DE_TENS[t]


def _de_below_1000(n, final=True):
    h, r = divmod(n, 100)
    s = ''
    if h:
        s += ('ein' if h == 1 else DE_ONES[h]) + 'hundert'
    if r:
        s += _de_below_100(r, final)
    return s


def german(n):
    if n == 0:
        return 'null'
    if n < 1000:
        return _de_below_1000(n)
    if n < 10 ** 6:
        th, r = divmod(n, 1000)
        return _de_below_1000(th, False) + 'tausend' + (_de_below_1000(r) if r else '')
    if n < 10 ** 9:
        mi, r = divmod(n, 10 ** 6)
        head = 'eine million' if mi == 1 else _de_below_1000(mi, False) + ' millionen'
        return head + (' ' + german(r) if r else '')
    bi, r = divmod(n, 10 ** 9)
    head = 'eine milliarde' if bi == 1 else _de_below_1000(bi, False) + ' milliarden'
    return head + (' ' + german(r) if r else '')


# ---------------------------------------------------------------- Chinese / Japanese
ZH_D = '零一二三四五六七八九'


def _zh_below_10000(n, ja=False):
    """positional form with 千百十; zeros inside a group become one 零 (Chinese) or are dropped (Japanese)"""
    s = ''
    units = [(1000, '千'), (100, '百'), (10, '十')]
    zero_pending = False
    started = False
    for u, ch in units:
        d, n = divmod(n, u)
        if d:
            if zero_pending and started and not ja:
                s += '零'
            zero_pending = False
            if ja and d == 1:
                s += ch
            elif d == 1 and ch == '十' and not started and not ja:
                s += ch                      # 十五, not 一十五, at the head of a number
            else:
                s += ZH_D[d] + ch
            started = True
        elif started:
            zero_pending = True
    if n:
        if zero_pending and started and not ja:
            s += '零'
        s += ZH_D[n]
    return s


def chinese(n, ja=False):
    if n == 0:
        return '零'
    s = ''
    started = False
    for u, ch in ((10 ** 12, '兆'), (10 ** 8, '亿' if not ja else '億'), (10 ** 4, '万')):
        d, n = divmod(n, u)
        if d:
            part = _zh_below_10000(d, ja)
            if started and d < 1000 and not ja:
                part = '零' + part
            s += part + ch
            started = True
    if n:
        part = _zh_below_10000(n, ja)
        if started and n < 1000 and not ja:
            part = '零' + part
        elif not started and not ja:
            pass
        s += part
    return s


def japanese(n):
    return chinese(n, ja=True)


# ---------------------------------------------------------------- Portuguese (below 1000 and round numbers)
PT_ONES = ['zero', 'um', 'dois', 'três', 'quatro', 'cinco', 'seis', 'sete', 'oito', 'nove', 'dez', 'onze', 'doze', 'treze', 'catorze',
           'quinze', 'dezesseis', 'dezessete', 'dezoito', 'dezenove']
PT_TENS = ['', '', 'vinte', 'trinta', 'quarenta', 'cinquenta', 'sessenta', 'setenta', 'oitenta', 'noventa']
PT_HUND = ['', 'cento', 'duzentos', 'trezentos', 'quatrocentos', 'quinhentos', 'seiscentos', 'setecentos', 'oitocentos', 'novecentos']


def portuguese(n):
    if n == 0:
        return 'zero'
    if n == 100:
        return 'cem'
    if n < 1000:
        parts = []
        h, r = divmod(n, 100)
        if h:
            parts.append(PT_HUND[h])
        if r:
            if r < 20:
                parts.append(PT_ONES[r])
            else:
                t, o = divmod(r, 10)
                parts.append(PT_TENS[t] + (' e ' + PT_ONES[o] if o else ''))
        return ' e '.join(parts)
    if n % 1000 == 0 and n < 10 ** 6:
        th = n // 1000
        return 'mil' if th == 1 else portuguese(th) + ' mil'
    if n == 10 ** 6:
        return 'um milhão'
    if n % 10 ** 6 == 0 and n < 10 ** 9:
        return portuguese(n // 10 ** 6) + ' milhões'
    raise ValueError('outside the encoded Portuguese range: %d' % n)


# ---------------------------------------------------------------- Italian / Dutch (below 100)
IT_ONES = ['zero', 'uno', 'due', 'tre', 'quattro', 'cinque', 'sei', 'sette', 'otto', 'nove', 'dieci', 'undici', 'dodici', 'tredici',
           'quattordici', 'quindici', 'sedici', 'diciassette', 'diciotto', 'diciannove']
IT_TENS = ['', '', 'venti', 'trenta', 'quaranta', 'cinquanta', 'sessanta', 'settanta', 'ottanta', 'novanta']


def italian(n):
    if n < 20:
        return IT_ONES[n]
    if n < 100:
        t, o = divmod(n, 10)
        if not o:
            return IT_TENS[t]
        stem = IT_TENS[t][:-1] if o in (1, 8) else IT_TENS[t]
        return stem + ('tré' if o == 3 else IT_ONES[o])
    if n == 100:
        return 'cento'
    if n == 1000:
        return 'mille'
    raise ValueError('outside the encoded Italian range: %d' % n)


NL_ONES = ['nul', 'een', 'twee', 'drie', 'vier', 'vijf', 'zes', 'zeven', 'acht', 'negen', 'tien', 'elf', 'twaalf', 'dertien', 'veertien',
           'vijftien', 'zestien', 'zeventien', 'achttien', 'negentien']
NL_TENS = ['', '', 'twintig', 'dertig', 'veertig', 'vijftig', 'zestig', 'zeventig', 'tachtig', 'negentig']


def dutch(n):
    if n < 20:
        return NL_ONES[n]
    if n < 100:
        t, o = divmod(n, 10)
        if not o:
            return NL_TENS[t]
        link = 'ën' if NL_ONES[o].endswith('e') else 'en'
        return NL_ONES[o] + link + NL_TENS[t]
    if n == 100:
        return 'honderd'
    if n == 1000:
        return 'duizend'
    raise ValueError('outside the encoded Dutch range: %d' % n)
