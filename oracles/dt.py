"""Shared helpers for the date-time drivers (C06-C12): model access, normalised entity records, and
culture tables written independently of the library (month names, numeric order).  The reference
models use only the standard library (datetime / calendar), never the library's own DateUtils."""
import calendar
import re
from datetime import date, datetime, timedelta

CULTURES = ['en-us', 'es-es', 'fr-fr', 'pt-br', 'it-it', 'de-de', 'nl-nl', 'zh-cn']

MONTHS = {
    'en-us': ['january', 'february', 'march', 'april', 'may', 'june', 'july', 'august', 'september', 'october',
              'november', 'december'],
    'es-es': ['enero', 'febrero', 'marzo', 'abril', 'mayo', 'junio', 'julio', 'agosto', 'septiembre', 'octubre',
              'noviembre', 'diciembre'],
    'fr-fr': ['janvier', 'février', 'mars', 'avril', 'mai', 'juin', 'juillet', 'août', 'septembre', 'octobre',
              'novembre', 'décembre'],
    'pt-br': ['janeiro', 'fevereiro', 'março', 'abril', 'maio', 'junho', 'julho', 'agosto', 'setembro', 'outubro',
              'novembro', 'dezembro'],
    'it-it': ['gennaio', 'febbraio', 'marzo', 'aprile', 'maggio', 'giugno', 'luglio', 'agosto', 'settembre', 'ottobre',
              'novembre', 'dicembre'],
    'de-de': ['januar', 'februar', 'märz', 'april', 'mai', 'juni', 'juli', 'august', 'september', 'oktober', 'november',
              'dezember'],
    'nl-nl': ['januari', 'februari', 'maart', 'april', 'mei', 'juni', 'juli', 'augustus', 'september', 'oktober',
              'november', 'december'],
}
EN_ABBR = ['jan', 'feb', 'mar', 'apr', 'may', 'jun', 'jul', 'aug', 'sep', 'oct', 'nov', 'dec']
WEEKDAYS_EN = ['monday', 'tuesday', 'wednesday', 'thursday', 'friday', 'saturday', 'sunday']
WEEKDAYS_EN_ABBR = ['mon', 'tue', 'wed', 'thu', 'fri', 'sat', 'sun']

CARRIER = {
    'en-us': ('i will go on ', ' with you'), 'es-es': ('voy a ir el ', ' contigo'), 'fr-fr': ('je pars le ', ' avec toi'),
    'pt-br': ('eu vou em ', ' com voce'), 'it-it': ('parto il ', ' con te'), 'de-de': ('ich gehe am ', ' mit dir'),
    'nl-nl': ('ik ga op ', ' met jou'), 'zh-cn': ('我在', '出发'),
}

_MODELS = {}


def model(cul):
    m = _MODELS.get(cul)
    if m is None:
        from recognizers_date_time import DateTimeRecognizer
        m = DateTimeRecognizer(cul).get_datetime_model(cul, False)
        _MODELS[cul] = m
    return m


def run(cul, q, ref):
    """[(start, end, text, type_name, values)] with values = list of dicts (or None when resolution is missing)."""
    out = []
    for e in model(cul).parse(q, ref):
        res = e.resolution
        vals = None
        if isinstance(res, dict):
            vals = res.get('values')
        out.append((e.start, e.end, e.text, e.type_name, vals))
    return out


def ordinal_en(d):
    if 10 <= d % 100 <= 20:
        return '%dth' % d
    return '%d%s' % (d, {1: 'st', 2: 'nd', 3: 'rd'}.get(d % 10, 'th'))


def days_in_month(y, m):
    return calendar.monthrange(y, m)[1]


# ---- C11: well-formedness of resolved values -------------------------------------------------

_DATE = re.compile(r'^\d{4}-\d{2}-\d{2}$')
_TIME = re.compile(r'^\d{2}:\d{2}:\d{2}$')
_DATETIME = re.compile(r'^\d{4}-\d{2}-\d{2} \d{2}:\d{2}:\d{2}$')
_NUM = re.compile(r'^-?\d+(\.\d+)?$')
_TX_DATE = re.compile(r'^(\d{4})-(\d{2})-(\d{2})$')
_TX_DATETIME = re.compile(r'^(\d{4})-(\d{2})-(\d{2})T(\d{2})(?::(\d{2}))?(?::(\d{2}))?$')
_TX_TIME = re.compile(r'^T(\d{2})(?::(\d{2}))?(?::(\d{2}))?$')
NOT_RESOLVED = 'not resolved'


def _valid(kind, s):
    """kind in date/time/datetime: strict shape and calendar validity."""
    try:
        if kind == 'date':
            if not _DATE.match(s):
                return False
            datetime.strptime(s, '%Y-%m-%d')
        elif kind == 'time':
            if not _TIME.match(s):
                return False
            datetime.strptime(s, '%H:%M:%S')
        else:
            if not _DATETIME.match(s):
                return False
            datetime.strptime(s, '%Y-%m-%d %H:%M:%S')
        return True
    except ValueError:
        return False


def timex_calendar_invalid(tx):
    """True when the TIMEX names a definite day that does not exist (Feb 30 ...)."""
    m = _TX_DATE.match(tx or '') or _TX_DATETIME.match(tx or '')
    if not m:
        return False
    y, mo, d = int(m.group(1)), int(m.group(2)), int(m.group(3))
    if not (1 <= mo <= 12) or y < 1:
        return True
    return not (1 <= d <= days_in_month(y, mo))


_TX_WEEK = re.compile(r'^(\d{4})-W(\d{2})$')
_TX_MONTH = re.compile(r'^(\d{4})-(\d{2})$')
_TX_YEAR = re.compile(r'^(\d{4})$')


def definite_period(tx):
    """(start, end) that a fully definite week / month / year TIMEX denotes, else None"""
    try:
        m = _TX_WEEK.match(tx)
        if m:
            monday = date.fromisocalendar(int(m.group(1)), int(m.group(2)), 1)
            return monday.isoformat(), (monday + timedelta(days=7)).isoformat()
        m = _TX_MONTH.match(tx)
        if m:
            y, mo = int(m.group(1)), int(m.group(2))
            nxt = date(y + 1, 1, 1) if mo == 12 else date(y, mo + 1, 1)
            return date(y, mo, 1).isoformat(), nxt.isoformat()
        m = _TX_YEAR.match(tx)
        if m:
            y = int(m.group(1))
            return date(y, 1, 1).isoformat(), date(y + 1, 1, 1).isoformat()
    except ValueError:
        return None
    return None


def wellformed(ent):
    """C11 oracle on one entity record from run().  Returns None or (kind, detail)."""
    s, e, text, type_name, vals = ent
    if vals is None:
        return ('resolution-missing', type_name)
    if not isinstance(vals, list) or not vals:
        return ('values-empty', type_name)
    for v in vals:
        typ = v.get('type')
        if type_name != 'datetimeV2.' + str(typ):
            return ('type-name-mismatch', '%s vs %s' % (type_name, typ))
        tx = v.get('timex')
        if typ in ('date', 'time', 'datetime'):
            val = v.get('value')
            if val == NOT_RESOLVED:
                continue
            if not isinstance(val, str) or not _valid(typ, val):
                return ('%s-value-malformed' % typ, val)
            if typ == 'date' and _TX_DATE.match(tx or '') and tx != val:
                return ('date-disagrees-with-timex', '%s vs %s' % (val, tx))
            if typ == 'time':
                m = _TX_TIME.match(tx or '')
                if m and '%s:%s:%s' % (m.group(1), m.group(2) or '00', m.group(3) or '00') != val:
                    return ('time-disagrees-with-timex', '%s vs %s' % (val, tx))
            if typ == 'datetime':
                m = _TX_DATETIME.match(tx or '')
                if m:
                    exp = '%s-%s-%s %s:%s:%s' % (m.group(1), m.group(2), m.group(3), m.group(4), m.group(5) or '00',
                                                 m.group(6) or '00')
                    if exp != val:
                        return ('datetime-disagrees-with-timex', '%s vs %s' % (val, tx))
            if timex_calendar_invalid(tx):
                return ('invalid-calendar-date-resolved', '%s -> %s' % (tx, val))
        elif typ == 'duration':
            val = v.get('value')
            if val == NOT_RESOLVED:
                continue
            if not isinstance(val, str) or not _NUM.match(val):
                return ('duration-value-malformed', val)
            # a duration TIMEX made only of weeks / days / hours / minutes / seconds is fully definite: the value is its seconds
            pd = parse_duration(tx or '') if 'Mod' not in v else None
            if pd and not pd['years'] and not pd['months']:
                exp = pd['days'] * 86400 + pd['seconds']
                if abs(float(val) - exp) > 1e-6 * max(1.0, abs(exp)):
                    return ('duration-seconds-differ-from-timex', '%s: %s (timex says %s)' % (tx, val, exp))
        elif typ in ('daterange', 'timerange', 'datetimerange'):
            kind = {'daterange': 'date', 'timerange': 'time', 'datetimerange': 'datetime'}[typ]
            st, en = v.get('start'), v.get('end')
            if st is None and en is None and v.get('value') == NOT_RESOLVED:
                continue
            for name, x in (('start', st), ('end', en)):
                if x is None or x == NOT_RESOLVED:
                    continue
                if not isinstance(x, str) or not _valid(kind, x):
                    return ('%s-%s-malformed' % (typ, name), x)
            if typ == 'daterange' and isinstance(st, str) and isinstance(en, str) and _DATE.match(st) and _DATE.match(en):
                mt = _TRIPLE.match(tx or '')
                reversed_input = bool(mt and mt.group(3).startswith('P-'))
                if mt:
                    pa, pb = parse_endpoint(mt.group(1)), parse_endpoint(mt.group(2))
                    if pa and pa[0] == 'date' and pa[1].isoformat() != st:
                        return ('daterange-start-disagrees-with-timex', '%s: %s' % (tx, st))
                    if pb and pb[0] == 'date' and pb[1].isoformat() != en:
                        return ('daterange-end-disagrees-with-timex', '%s: %s' % (tx, en))
                if not st < en and not reversed_input:
                    return ('daterange-start-not-before-end', '%s .. %s' % (st, en))
                if 'Mod' not in v:
                    # a definite week / month / year TIMEX: the resolved range must lie inside the period it names
                    # ("later this year", "year to date" legitimately resolve to a part of it)
                    exp = definite_period(tx or '')
                    if exp and not (exp[0] <= st and en <= exp[1]):
                        return ('daterange-outside-its-timex-period', '%s: %s .. %s' % (tx, st, en))
        elif typ in ('set',):
            pass
        else:
            return ('unknown-type', str(typ))
    return None


# ---- (start,end,duration) TIMEX triples -------------------------------------------------------

_TRIPLE = re.compile(r'^\(([^,()]*),([^,()]*),([^,()]*)\)$')
_DUR = re.compile(r'^P(?:(-?\d+(?:\.\d+)?)Y)?(?:(-?\d+(?:\.\d+)?)M)?(?:(-?\d+(?:\.\d+)?)W)?(?:(-?\d+(?:\.\d+)?)D)?'
                  r'(?:T(?:(-?\d+(?:\.\d+)?)H)?(?:(-?\d+(?:\.\d+)?)M)?(?:(-?\d+(?:\.\d+)?)S)?)?$')


def parse_endpoint(tx):
    """('date', date) | ('datetime', datetime) | ('time', seconds) | None when not definite"""
    m = _TX_DATE.match(tx)
    try:
        if m:
            return 'date', date(int(m.group(1)), int(m.group(2)), int(m.group(3)))
        m = _TX_DATETIME.match(tx)
        if m:
            return 'datetime', datetime(int(m.group(1)), int(m.group(2)), int(m.group(3)), int(m.group(4)),
                                        int(m.group(5) or 0), int(m.group(6) or 0))
        m = _TX_TIME.match(tx)
        if m:
            return 'time', int(m.group(1)) * 3600 + int(m.group(2) or 0) * 60 + int(m.group(3) or 0)
    except ValueError:
        return None
    return None


def parse_duration(tx):
    """dict(years, months, days, seconds) or None"""
    m = _DUR.match(tx)
    if not m or tx in ('P', 'PT'):
        return None
    y, mo, w, d, h, mi, s = [float(x) if x else 0.0 for x in m.groups()]
    return {'years': y, 'months': mo, 'days': w * 7 + d, 'seconds': h * 3600 + mi * 60 + s}


def add_months(d, n):
    idx = d.year * 12 + d.month - 1 + n
    y, m = idx // 12, idx % 12 + 1
    day = min(d.day, days_in_month(y, m))
    return d.replace(year=y, month=m, day=day)


def triple_consistent(val):
    """C10 oracle on one resolution value carrying a (start,end,duration) TIMEX with definite endpoints.
    Returns None (consistent or not applicable) or a failure kind."""
    m = _TRIPLE.match(val.get('timex') or '')
    if not m:
        return None
    a, b, dur = m.groups()
    pa, pb, pd = parse_endpoint(a), parse_endpoint(b), parse_duration(dur)
    if pa is None or pb is None or pa[0] != pb[0]:
        return None
    kind = pa[0]
    fmt = {'date': lambda x: x.isoformat(), 'datetime': lambda x: x.strftime('%Y-%m-%d %H:%M:%S'),
           'time': lambda x: '%02d:%02d:%02d' % (x // 3600, x % 3600 // 60, x % 60)}[kind]
    if val.get('start') is not None and val.get('start') != fmt(pa[1]):
        return 'start-differs-from-timex'
    if val.get('end') is not None and val.get('end') != fmt(pb[1]):
        return 'end-differs-from-timex'
    if pd is None:
        return 'duration-unparsable'
    if kind == 'time':
        diff = (pb[1] - pa[1])
        want = pd['days'] * 86400 + pd['seconds']
        if pd['years'] or pd['months'] or (diff != want and diff % 86400 != want % 86400):
            return 'end-minus-start-differs-from-duration'
        return None
    sa = pa[1] if kind == 'datetime' else datetime(pa[1].year, pa[1].month, pa[1].day)
    sb = pb[1] if kind == 'datetime' else datetime(pb[1].year, pb[1].month, pb[1].day)
    if pd['years'] or pd['months']:
        if pd['years'] != int(pd['years']) or pd['months'] != int(pd['months']):
            return None
        exp = add_months(sa, int(pd['years']) * 12 + int(pd['months'])) + timedelta(days=pd['days'], seconds=pd['seconds'])
        return None if exp == sb else 'end-minus-start-differs-from-duration'
    if (sb - sa).total_seconds() != pd['days'] * 86400 + pd['seconds']:
        return 'end-minus-start-differs-from-duration'
    return None
