"""All registered (recognizer, model type, culture) triples of the five recognisers, read from the live
model factories, and uniform access to a model's parse()."""
from datetime import datetime

_RECS = {}
REF = datetime(2016, 11, 7, 12, 0, 0)


def recognizers():
    if not _RECS:
        from recognizers_number import NumberRecognizer
        from recognizers_number_with_unit import NumberWithUnitRecognizer
        from recognizers_date_time import DateTimeRecognizer
        from recognizers_sequence import SequenceRecognizer
        from recognizers_choice import ChoiceRecognizer
        # lazy_initialization=False: (despite its name) the constructor then does NOT build every model; each model is built
        # by the first get_model() that asks for it
        mk = lambda cls: cls(lazy_initialization=False)
        _RECS.update(Number=mk(NumberRecognizer), NumberWithUnit=mk(NumberWithUnitRecognizer), DateTime=mk(DateTimeRecognizer),
                     Sequence=mk(SequenceRecognizer), Choice=mk(ChoiceRecognizer))
    return _RECS


def registered():
    """sorted [(recognizer name, model type, culture)]"""
    out = []
    for name, rec in recognizers().items():
        for key in rec.model_factory.model_factories:
            out.append((name, key.model_type, key.culture))
    return sorted(out)


def get_model(rec, model_type, culture):
    return recognizers()[rec].get_model(model_type, culture, False)


def parse(rec, model_type, culture, query, ref=REF):
    m = get_model(rec, model_type, culture)
    if rec == 'DateTime':
        return m.parse(query, ref)
    return m.parse(query)
