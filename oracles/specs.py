"""Loader for the cross-platform Specs corpus (read-only): Python-supported cases with their culture,
model, level, options and context, exactly as the repository's own runner selects them."""
import glob
import json
import os
import re
from datetime import datetime

from vmc import env

ENTITY_PATTERN = re.compile('(.*)(Model|Parser|Extractor|Resolver)(.*)')
CULTURES = {'Chinese': 'zh-cn', 'Dutch': 'nl-nl', 'English': 'en-us', 'French': 'fr-fr', 'Italian': 'it-it',
            'Japanese': 'ja-jp', 'Korean': 'ko-kr', 'Portuguese': 'pt-br', 'Spanish': 'es-es', 'SpanishMexican': 'es-mx',
            'Turkish': 'tr-tr', 'German': 'de-de'}
_CACHE = {}


def all_suites():
    if 'suites' in _CACHE:
        return _CACHE['suites']
    root = os.path.join(env.REPO, 'Specs')
    out = []
    for path in sorted(glob.glob(os.path.join(root, '**', '*.json'), recursive=True)):
        rel = os.path.relpath(path, root).split(os.sep)
        if len(rel) != 3:
            continue
        recognizer, language, fname = rel
        m = ENTITY_PATTERN.search(os.path.splitext(fname)[0])
        if not m or language not in CULTURES:
            continue
        model, entity, options = m.groups()
        if model == 'Merged' and entity == 'Parser':
            entity = 'MergedParser'
        with open(path, encoding='utf-8-sig') as f:
            specs = json.load(f)
        out.append({'file': '/'.join(rel), 'recognizer': recognizer, 'language': language, 'culture': CULTURES[language],
                    'model': model, 'entity': entity, 'options': options, 'specs': specs})
    _CACHE['suites'] = out
    return out


def supported_cases(recognizer=None, entity=None):
    """[(suite, index, spec)] for cases not marked NotSupported / NotSupportedByDesign for python"""
    out = []
    for s in all_suites():
        if recognizer and s['recognizer'] != recognizer:
            continue
        if entity and s['entity'] != entity:
            continue
        for i, spec in enumerate(s['specs']):
            if 'python' in (spec.get('NotSupportedByDesign') or ''):
                continue
            if 'python' in (spec.get('NotSupported') or ''):
                continue
            out.append((s, i, spec))
    return out


def reference_of(spec, default=None):
    ctx = spec.get('Context') or {}
    r = ctx.get('ReferenceDateTime')
    if not r:
        return default
    r = r[:19]
    return datetime.strptime(r, '%Y-%m-%dT%H:%M:%S')
