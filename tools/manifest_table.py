NOTES = ('All checks are bounded exhaustive explorations of the real code of /repo\'s working tree (never the PyPI copy in '
         'site-packages); see DESIGN.md. Exit 0 = held, 1 = VIOLATION, 2 = harness error / incomplete enumeration.')
NOT_APPLICABLE = {}
BASE_NOTE = ('Trusted base: CPython 3.12, the regex module, /verif/shims (datedelta, grapheme, ruamel stand-ins), the reference '
             'model in the driver. Bounds are stated in the evidence file; "exhaustive" refers to those bounds. ')
CHECKS = {
 'C16': dict(engine='E1-choice-tree', design_ref='7/C16',
   technique='exhaustive small-scope enumeration of strings, dictionaries and queries against a naive reference tokenizer/matcher',
   text='Every string up to length 6 (thorough 7) over a 7-symbol alphabet through both tokenizers, and every dictionary of 1-2 '
        'phrases x every query up to length 5 x both tokenizers x 3 init forms through the real StringMatcher, compared with a '
        'naive reference on every leaf. Small-scope exhaustiveness is the right level: the trie and tokenizers have no state '
        'beyond a few characters of context.',
   note=BASE_NOTE + 'Alphabet abstraction: one representative per character class the tokenizers distinguish.'),
}
