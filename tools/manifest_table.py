NOTES = ('All checks are bounded exhaustive explorations of the real code of /repo\'s working tree (never the PyPI copy in '
         'site-packages); see DESIGN.md. Exit 0 = held, 1 = VIOLATION, 2 = harness error / incomplete enumeration.')
NOT_APPLICABLE = {}
BASE_NOTE = ('Trusted base: CPython 3.12, the regex module, /verif/shims (datedelta, grapheme, ruamel stand-ins), the reference '
             'model in the driver. Bounds are stated in the evidence file; "exhaustive" refers to those bounds. ')
CHECKS = {
 'C16': dict(engine='E1-choice-tree', design_ref='7/C16',
   technique='exhaustive small-scope enumeration of strings, dictionaries and queries against a naive reference tokenizer/matcher',
   text='Every string up to length 6 (thorough 7) over a 7-symbol alphabet through both tokenizers, and every dictionary of 1-2 '
        'phrases x every query up to length 5 x both tokenizers x 4 init forms through the real StringMatcher, compared with a '
        'naive reference on every leaf; a write monitor on find() and two callers on one freshly initialised matcher under every '
        'schedule with <= 1 (thorough 2) preemptions at every function entry of the matcher package. Small-scope exhaustiveness is the right level: the trie and tokenizers have no state '
        'beyond a few characters of context.',
   note=BASE_NOTE + 'Alphabet abstraction: one representative per character class the tokenizers distinguish.'),
 'C03': dict(engine='E1-choice-tree', design_ref='7/C03',
   technique='exhaustive enumeration of structured literal shapes per culture against Decimal arithmetic',
   text='Every literal built from (all small integers, 10^k and 10^k+/-1, the full cross product of per-group digit classes over five '
        '3-digit groups) x fraction digit strings x {plain, grouped, negative, negative+grouped} x {alone, carrier} is run through the '
        'real number and percentage models of all 10 cultures and compared with Decimal arithmetic and a literal table of culture marks. '
        'Shape-exhaustive rather than value-exhaustive: 10^15 values cannot be enumerated, the grammar\'s compositional units can.',
   note=BASE_NOTE + '15-significant-digit rounding is compared with one-ulp tolerance above 15 digits.'),
 'C13': dict(engine='E1-choice-tree', design_ref='7/C13',
   technique='exhaustive enumeration of address/GUID/sequence literal shapes against own grammar rules and ipaddress',
   text='IPv4: per octet position every spelling 0..999 and zero-padded forms x boundary octets; IPv6: every "::" position and length, '
        'every hextet spelling of length 1-4 over {0,1,a,F} at every position, near-misses; GUID: every hex digit at every position x 4 '
        'layouts x case; first-use write monitor for every sequence model; several addresses per query; e-mail, URL (every listed TLD), hashtag, mention, phone templates with all digit fillings. Completeness and '
        'soundness are checked on every leaf; workers keep one model for the whole run, so stale-state defects surface as '
        'history-dependent failures.',
   note=BASE_NOTE + 'ipaddress (standard library) is the address oracle.'),
 'C14': dict(engine='E1-choice-tree', design_ref='7/C14',
   technique='exhaustive enumeration of the TIMEX grammar over field boundary sets, parse/format/parse fixpoint',
   text='Every TIMEX form of the statement with all months, days 01-31, weeks 01-53, all 86,400 times of day, years from boundary sets '
        '(thorough: every 7th year 0001-9999), durations (amounts up to 31 significant digits under ambient decimal precisions 28/15/6), date+time combinations and from_date/from_date_time/from_time, checked for '
        'field-preserving round trip, idempotent formatting and canonical identity against an independent formatter; plus every '
        '<=1-preemption schedule of two threads round-tripping two TIMEXes.',
   note=BASE_NOTE),
 'C20': dict(engine='E1-choice-tree', design_ref='7/C20',
   technique='exhaustive enumeration of the resource regex alternatives x case x context; neutral and mixed-polarity strings',
   text='Every alternative of EnglishChoice.TrueRegex/FalseRegex (expanded mechanically from the resource text, emoji as code points, '
        'all skin tones) x 3 letter cases x 26 contexts including fillers that contain listed words as substrings; all neutral token '
        'sequences up to length 3; every ordered true/false pair x 3 separators; polarity, exact span, score range on every leaf; plus '
        'every <=1-preemption schedule of two callers sharing the cached model.',
   note=BASE_NOTE),
 'C06': dict(engine='E1-choice-tree', design_ref='7/C06',
   technique='exhaustive enumeration of dates x layouts x cultures, each leaf parsed under several reference datetimes',
   text='Every day of seed-rotated full years and the calendar boundaries of every year 1900-2099, rendered in all 12 English layouts and '
        'in ISO / numeric / month-name layouts of 7 other cultures, alone and in carriers; each leaf is parsed under 2 (thorough 4) '
        'reference datetimes spanning 1950-2090 and must give the identical single date entity with TIMEX = value = the date; plus a first-use '
        'write monitor (structural fingerprint of a freshly built model before and after its first date) per culture.',
   note=BASE_NOTE + 'Month names and numeric order per culture are a table of the driver.'),
 'C07': dict(engine='E1-choice-tree', design_ref='7/C07',
   technique='exhaustive enumeration of clock-time spellings and date+time compositions, with one-step call histories on the warm model',
   text='All 24x60 HH:MM with 5 second variants (thorough all 86,400), all 12-hour spellings x 8 markers, o\'clock forms, 24-hour forms of 7 '
        'other cultures, and <date> at <time> for 9 date expressions (absolute, relative, and the two-candidate families bare weekday and month/day without year: every candidate date must get every reading) x 40 boundary times x 4 references, each also '
        'after a related part-of-day query on the same warm model (non-initial state). Oracle: one reading for hour 0/13-23 or a '
        'marker, exactly two readings otherwise; composed datetimes by datetime arithmetic.',
   note=BASE_NOTE),
 'C08': dict(engine='E1-choice-tree', design_ref='7/C08',
   technique='exhaustive enumeration of reference days (histories) x relative expressions against datetime/isocalendar arithmetic',
   text='The reference date is enumerated day by day: a full year plus every month boundary, New-Year and leap-day neighbourhood of a '
        '28-year window (thorough: every day of the window and every day 1950-2090 for week/month/year), 4 times of day on a 28-day '
        'window, and an amount sweep up to N=5000 at 12 references; 49 English expressions per reference and the working phrases of 7 '
        'other cultures.',
   note=BASE_NOTE + 'Month/year shifts depend on the datedelta stand-in.'),
 'C09': dict(engine='E1-choice-tree', design_ref='7/C09',
   technique='exhaustive enumeration of stated days x reference days (histories) against min/max over matching dates',
   text='All 366 month-days x 4 layouts and 7 weekday names; the reference date ranges over the stated day and its neighbours in each '
        'of 8 years at 3 times of day, year and leap-day boundaries, and every day of a leap and a non-leap year for the special days '
        '(thorough: every day of 2015-2022 x 2 times for every stated day). Exactly two candidates [latest before R, earliest on or '
        'after R] with an open-year/open-week TIMEX are required; plus every <=1-preemption schedule of two callers with different references.',
   note=BASE_NOTE + 'English only.'),
 'C10': dict(engine='E1-choice-tree', design_ref='7/C10',
   technique='exhaustive enumeration of N x units and of ordered endpoint pairs; arithmetic invariant on every (start,end,duration) triple',
   text='N x 7 units x 3 carriers for durations; every ordered pair of 12 dates (2 layouts, 3 connectors), 10 clock times and 6 datetimes '
        'for ranges, endpoints written to the minute and to the second; plus the triple-consistency invariant evaluated on every entity the date-time model emits for every '
        'Python-supported Specs input of every culture.',
   note=BASE_NOTE),
 'C01': dict(engine='E1-choice-tree', design_ref='7/C01',
   technique='exhaustive enumeration of token sequences over a closed pool x all 81 registered models; span invariant with an independent normaliser',
   text='Every registered (model, culture) pair is run on every Python-supported Specs model input of its culture, on every 2-token '
        '(and head 3-token) sequence over a closed per-culture pool (spec-derived words, numerals, punctuation, full-width forms, every '
        'code point whose lower-casing changes the string length) and on pairs/triples of spec-derived entity expressions, on every spec input continued by / preceded by one entity expression of a closed '
        'per-culture pool, and on the merged extractor\'s number-ending rule; two callers per model family under every <=1-preemption schedule and a '
        'write monitor over all 81 registered models (no call may write to the cached model); each '
        'returned entity must satisfy 0 <= start <= end < len(q) and normalised text == normalised slice.',
   note=BASE_NOTE + 'Quick tier: a seed-rotated third of the spec inputs meets every model, the rest the models of their own recogniser.'),
 'C04': dict(engine='E1-choice-tree', design_ref='7/C04',
   technique='exhaustive enumeration of integers (small range + compositional shapes) through numeral generators per culture',
   text='English: every n < 10^4 (thorough 10^5), 10^k and 10^k+/-1, and the full cross product of digit classes over five 3-digit groups '
        'up to 10^15, x and/hyphen variants x cardinal and ordinal models x carrier; Spanish, French, German, Chinese, Japanese: every '
        'n < 10^3 (thorough 10^4) plus round numbers and composites to 10^12. One entity over the phrase with value str(n).',
   note=BASE_NOTE + 'Numeral generators (oracles/numerals.py) are part of the trusted base; a dialect guard checks their vocabulary against '
        'the culture maps. pt/it/nl have no generator.'),
 'C05': dict(engine='E1-choice-tree', design_ref='7/C05',
   technique='exhaustive enumeration of the run-time unit tables (every unit spelling of every registered model) and of fraction pairs',
   text='All (model, culture, unit, spelling) entries wired into the 33 registered number-with-unit models x numerals (incl. the boundary numeral 0) x carriers, and all '
        'main/fraction currency pairs x 6 amounts (incl. zero) x connectors; oracle derived from the tables themselves (any unit listing the spelling '
        'is accepted) and the number model.',
   note=BASE_NOTE + 'About 4% of the table entries fail on the unchanged tree and are listed one by one in known_findings.json.'),
 'C11': dict(engine='E1-choice-tree', design_ref='7/C11',
   technique='invariant evaluated on every entity of an exhaustive sweep: spec inputs x references, expression pool x reference days, non-existent dates',
   text='Well-formedness and TIMEX agreement of every resolution value on every Python-supported Specs date-time input of 9 cultures under 5 '
        'references, ~150 generated expressions under every 3rd day of a leap year plus year boundaries 1950-2090, non-existent '
        'calendar dates in 10 layouts, a closed duration grammar over every unit word of every culture\'s unit table (seconds must equal a W/D/H/M/S '
        'TIMEX), every pair of bare hours as a range on a date, and every <=1-preemption schedule of two callers with expressions of different kinds.',
   note=BASE_NOTE),
 'C12': dict(engine='E1-choice-tree', design_ref='7/C12',
   technique='same exhaustive exploration as C01; interval-disjointness invariant on the entities of each model call',
   text='Every registered model on spec inputs, spec inputs extended by a neighbour entity, the number-ending rule, token sequences and pairs/triples of entity expressions joined by separators (adjacency is '
        'what makes sub-extractors collide); entities of one call sorted by start must satisfy end_i < start_(i+1).',
   note=BASE_NOTE),
 'C02': dict(engine='E3-scheduler', design_ref='7/C02',
   technique='exhaustive call histories on a warm process (E2) + exhaustive <=1-preemption schedules of 2 threads under a controlled scheduler (E3), against a table from fresh interpreters',
   text='Pool of 18 colliding calls. E2: every history of length <= 3 (thorough 4), every call after a cache reset, on a fresh thread and on a '
        'reused worker thread. E3: 8 two-thread drivers (cold same key, cold two cultures, warm number/percentage, warm date-time with two '
        'references / queries / option values, cold date-time + number) - every schedule with at most 1 preemption (2 on two small coarse drivers; thorough: '
        'call-level points on the warm date-time drivers) at the driver granularity, 16k schedules in the quick tier. Every result must equal the entry computed for '
        'that call alone in a fresh interpreter (table computed twice and compared).',
   note=BASE_NOTE + 'Scheduling points are trace events (line level in the cache code, call level elsewhere); no true parallelism.'),
 'C15': dict(engine='E1-choice-tree', design_ref='7/C15',
   technique='small-scope exhaustive enumeration of TIMEX / reference / candidate-set / constraint-set combinations against brute force over the calendar',
   text='resolve(): 7 weekdays x 2 reference windows (mid-year, New Year) x 3 years, 7 units x 8 amounts, all months x 5 years incl. December, '
        'well-formedness of every entry for 10 TIMEX forms; evaluate(): all candidate sets of size 1-2 from 9 candidates x all constraint '
        'sets of size 1-2 (thorough 3) from 8 date ranges x 5 time-range choices, each result checked for definiteness, membership '
        'in a constraint, instance-of-candidate, and completeness for weekday x single range, also after an earlier evaluation with an overlapping range in the same process.',
   note=BASE_NOTE),
 'C17': dict(engine='E2-state-search', design_ref='7/C17',
   technique='explicit-state exploration of the real model cache: all depth-1 requests and all request sequences to depth 2-3, reference routing/cache model in lock-step',
   text='7,000+ depth-1 requests (16 getters x ~160 culture strings incl. unknown tags that begin with a supported language\'s letters, in 5 casings x fallback x target culture x eager flag x options) from the '
        'cold cache, and every sequence of 2 (thorough 3) requests over a 144-request alphabet on long-lived recogniser objects; on every '
        'transition: which registered constructor built the answer (or ValueError), object identity per cache key, and real cache key set '
        '== reference model state.',
   note=BASE_NOTE + 'Registered constructors are wrapped through the public model_factories dict to tag constructions.'),
 'C18': dict(engine='E1-choice-tree', design_ref='7/C18',
   technique='exhaustive definition-by-definition AST comparison of all generated modules against the output of the repository generator',
   text='The repository\'s own resource generator is run on Patterns/*.yaml for every entry of the five resource-definitions.json files '
        'into a scratch directory, and all 3,777 definitions of the 45 output modules are compared as ASTs with the checked-in '
        'modules (plus module-level headers/footers and the sets of names). A finite configuration space enumerated completely: '
        'the depth-0 case of the family.',
   note=BASE_NOTE + 'The generator runs on the ruamel.yaml stand-in.'),
 'C19': dict(engine='E1-choice-tree', design_ref='7/C19',
   technique='exhaustive run of every Python-supported spec case through the repository\'s own runner functions plus strict offset comparison',
   text='All 14,655 Python-supported cases of Specs/** at Model / Extractor / Parser / MergedParser level through the project\'s own '
        'test functions (same selection, same assertions), plus Start/End comparison for the Sequence and Choice model cases, which '
        'the project\'s runner does not compare.',
   note=BASE_NOTE),
}
