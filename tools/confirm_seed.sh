#!/bin/sh
# usage: tools/confirm_seed.sh <seed dir with patch.diff + demo.py> -> prints a one-line verdict and writes <dir>/confirm.json
# Confirms in a scratch worktree: demo passes unpatched, fails patched; pinned suite and the shim-enabled spec suite
# keep their baselines with the patch applied.
D="$1"
WT=$(mktemp -d /tmp/confirm.XXXXXX)
git -C /repo worktree add -q --detach "$WT" "${BASE:-4b7e11635}" || exit 2
/tmp/mutenv/pyrun "$WT" "$D/demo.py" >/dev/null 2>&1; rc0=$?
if ! git -C "$WT" apply "$D/patch.diff"; then echo "$D: PATCH DOES NOT APPLY"; git -C /repo worktree remove --force "$WT"; exit 2; fi
/tmp/mutenv/pyrun "$WT" "$D/demo.py" >"$WT/.demo.out" 2>&1; rc1=$?
pinned=$(cd "$WT" && /venv/bin/python -m pytest -q -p no:cacheprovider Python/tests/datatypes 2>&1 | tail -1)
/tmp/mutenv/spec_suite "$WT" tests -rf 2>&1 | grep -E "^FAILED|passed|failed" > "$WT/.spec.out"
spec=$(tail -1 "$WT/.spec.out")
grep "^FAILED" "$WT/.spec.out" | sort > "$WT/.f1"; grep "^FAILED" /tmp/mutenv/baseline_spec_failures.txt | sort > "$WT/.f0"
if cmp -s "$WT/.f0" "$WT/.f1"; then same=true; else same=false; fi
python3 - "$D" "$rc0" "$rc1" "$pinned" "$spec" "$same" <<'PY'
import json,sys
d,rc0,rc1,pinned,spec,same=sys.argv[1:]
doc={'demo_exit_unpatched':int(rc0),'demo_exit_patched':int(rc1),'pinned_suite_with_patch':pinned.strip(),
     'spec_suite_with_patch':spec.strip(),'spec_failures_equal_baseline':same=='true'}
json.dump(doc,open(d+'/confirm.json','w'),indent=1)
ok = doc['demo_exit_unpatched']==0 and doc['demo_exit_patched']!=0 and '204 passed' in pinned and same=='true'
print(d, 'CONFIRMED' if ok else 'NOT-CONFIRMED', doc)
PY
git -C /repo worktree remove --force "$WT"
