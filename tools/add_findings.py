#!/usr/bin/env python3
"""Manual triage helper (never run by a check): record failure classes of the last run of <ID> whose key matches
<regex> as open known findings with the given description.
usage: tools/add_findings.py <ID> '<key regex>' '<description (may use {key}, {example})>'"""
import json, os, re, sys
V = os.path.dirname(os.path.dirname(os.path.abspath(__file__)))
pid, rx, desc = sys.argv[1:4]
last = json.load(open(os.path.join(V, 'replays', '%s.last_failures.json' % pid)))
kf_path = os.path.join(V, 'known_findings.json')
kf = json.load(open(kf_path))
have = {(e['property'], e['key']) for e in kf['findings']}
n = 0
for key, info in last['failures'].items():
    if re.search(rx, key) and (pid, key) not in have:
        ex = info.get('example') or {}
        witness = ex.get('query') or ex.get('timex') or ex.get('string') or ex.get('witness') or ''
        kf['findings'].append({'property': pid, 'key': key, 'status': 'open',
                               'description': desc.format(key=key, example=witness),
                               'witness': ({k: v for k, v in ex.items() if k not in ('choice_vector', 'finding_key')}
                                           if os.environ.get('FINDINGS_NO_WITNESS') != '1' else {'query': witness})})
        n += 1
json.dump(kf, open(kf_path, 'w'), indent=1, ensure_ascii=False)
print('added', n, 'findings for', pid)
