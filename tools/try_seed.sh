#!/bin/sh
# usage: tools/try_seed.sh <patch.diff> <ID> [tier] [seed]   -- runs check <ID> against a scratch worktree of /repo
# with the patch applied (never touches /repo or the committed evidence), then removes the worktree.
P="$1"; ID="$2"; TIER="${3:-quick}"; SEED="${4:-0}"
WT=$(mktemp -d /tmp/tryseed.XXXXXX)
git -C /repo worktree add -q --detach "$WT" HEAD || exit 2
if ! git -C "$WT" apply "$P"; then echo "PATCH DOES NOT APPLY"; git -C /repo worktree remove --force "$WT"; exit 2; fi
cd /verif
VERIF_REPO="$WT" VERIF_EVIDENCE_DIR="$WT/.evidence" VERIF_REPLAY_DIR="/tmp/tryseed-replays" VERIF_PYCACHE="$WT/.pyc" VERIF_SEED="$SEED" ./check "$ID" --tier "$TIER" 2>/dev/null | grep -E "VIOLATION|KNOWN|key=|tier=|HARNESS|INCOMPLETE" | head -${TRY_LINES:-12}
rc=$?
git -C /repo worktree remove --force "$WT"
