#!/usr/bin/env python3
"""Regenerates /verif/MANIFEST.json from the table below (kept next to the drivers so the manifest is
always valid and consistent with what exists)."""
import json, os, sys
V = os.path.dirname(os.path.dirname(os.path.abspath(__file__)))
sys.path.insert(0, V)
from tools.manifest_table import CHECKS, NOT_APPLICABLE, NOTES

props = [json.loads(l)['id'] for l in open(os.path.join(V, 'properties.jsonl'))]
checks = []
for pid in props:
    if pid not in CHECKS:
        continue
    c = CHECKS[pid]
    checks.append({
        'property_id': pid,
        'quick_cmd': './check %s --tier quick' % pid,
        'thorough_cmd': './check %s --tier thorough' % pid,
        'evidence_file': '/verif/evidence/%s.json' % pid,
        'replay_cmd_template': './check %s --replay {path}' % pid,
        'engine': c['engine'],
        'level_claimed': {'category': 'model_checking', 'text': c['text'], 'design_ref': c['design_ref']},
        'level_note': c['note'],
        'technique': c['technique'],
    })
na = [{'property_id': p, 'reason': NOT_APPLICABLE.get(p, 'check not built yet in this session; see DESIGN.md section 7')}
      for p in props if p not in CHECKS]
m = {
    'version': 1,
    'setup_cmd': 'cd /verif && ./setup.sh',
    'hooks': {
        'guard': 'RECOGNIZERS_TEXT_VERIF',
        'enable': 'no source hooks: checks import /repo\'s working tree directly (PYTHONPATH built by vmc/env.py); '
                  'scheduling points come from sys.settrace, clocks from rebinding module-level names',
        'baseline_off_cmd': 'cd /repo && /venv/bin/python -m pytest -ra -q -p no:cacheprovider --timeout=900 '
                            '--continue-on-collection-errors',
        'source_commits': [],
        'add_only': True,
    },
    'engines': [
        {'name': 'E1-choice-tree', 'path': 'vmc/explore.py', 'serves_properties': [p for p in props if p in CHECKS and CHECKS[p]['engine'] == 'E1-choice-tree'],
         'kind_free_text': 'stateless exhaustive exploration of a finite choice tree (input shapes, environment answers, '
                           'operation sequences) with replay from decision prefixes, sharded over processes; reference '
                           'model executed in lock-step on every leaf'},
        {'name': 'E2-state-search', 'path': 'vmc/state.py', 'serves_properties': [p for p in props if p in CHECKS and CHECKS[p]['engine'] == 'E2-state-search'],
         'kind_free_text': 'explicit-state breadth-first search over the real process state (model cache, decimal context) '
                           'with canonical fingerprints; transitions are real API calls'},
        {'name': 'E3-scheduler', 'path': 'vmc/sched.py', 'serves_properties': [p for p in props if p in CHECKS and CHECKS[p]['engine'] == 'E3-scheduler'],
         'kind_free_text': 'controlled cooperative scheduler over real threads (sys.settrace scheduling points), iterative '
                           'preemption bounding'},
    ],
    'checks': checks,
    'not_applicable': na,
    'notes': NOTES,
}
json.dump(m, open(os.path.join(V, 'MANIFEST.json'), 'w'), indent=1)
print('checks:', len(checks), 'not claimed:', len(na))
