#!/usr/bin/env python3
"""usage: tools/keep_seed.py <seed dir> <property> "<needs>" "<detected by>"   -> /verif/seeded/<name>/"""
import json, os, shutil, sys
src, prop, needs, detected = sys.argv[1:5]
name = os.path.basename(src.rstrip('/'))
dst = os.path.join('/verif/seeded', name)
os.makedirs(dst, exist_ok=True)
for f in ('patch.diff', 'demo.py', 'notes.md'):
    if os.path.exists(os.path.join(src, f)):
        shutil.copy(os.path.join(src, f), os.path.join(dst, f))
conf = json.load(open(os.path.join(src, 'confirm.json')))
meta = {'id': name, 'breaks_property': prop, 'needs_to_manifest': needs,
        'origin': 'independent sub-agent given only the property text and a scratch worktree',
        'confirmed_by_me': {'how': 'tools/confirm_seed.sh in a scratch worktree of /repo (removed afterwards): demo.py on the '
                                   'unpatched tree, demo.py with patch.diff applied, pinned suite, full shim-enabled spec suite',
                            **conf},
        'detected_by': detected}
json.dump(meta, open(os.path.join(dst, 'meta.json'), 'w'), indent=1)
print('kept', dst)
