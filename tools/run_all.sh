#!/bin/sh
# usage: tools/run_all.sh [seed] [tier]  -- every check once, one summary line each (exit status, wall, new violation classes)
SEED="${1:-0}"; TIER="${2:-quick}"
cd /verif
for id in $(python3 -c "import json;print(' '.join(c['property_id'] for c in json.load(open('MANIFEST.json'))['checks']))"); do
  t0=$(date +%s)
  out=$(VERIF_SEED=$SEED ./check $id --tier $TIER 2>/dev/null)
  rc=$?
  t1=$(date +%s)
  echo "$id rc=$rc wall=$((t1-t0))s $(echo "$out" | grep -c '^VIOLATION') violations, $(echo "$out" | grep -c '^KNOWN-FINDING') known | $(echo "$out" | tail -1 | cut -c1-150)"
  echo "$out" | grep -A1 '^VIOLATION' | grep 'key=' | head -5
done
