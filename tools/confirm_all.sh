#!/bin/sh
# confirm every seed under /tmp/seeds/*/* that has a patch.diff and no confirm.json yet
for d in /tmp/seeds/*/*-?; do
  [ -f "$d/patch.diff" ] || continue
  [ -f "$d/confirm.json" ] && continue
  case "$d" in *-d|*-e|*C1[1-9]-c|*C20-c) export BASE=5cffad322 ;; *-c) export BASE=ce8d5d498 ;; */C14-*|*/C20-*) export BASE=a977868ea ;; *) export BASE=4b7e11635 ;; esac
  /verif/tools/confirm_seed.sh "$d"
done
