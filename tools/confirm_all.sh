#!/bin/sh
# confirm every seed under /tmp/seeds/*/* that has a patch.diff and no confirm.json yet
for d in /tmp/seeds/*/*-?; do
  [ -f "$d/patch.diff" ] || continue
  [ -f "$d/confirm.json" ] && continue
  /verif/tools/confirm_seed.sh "$d"
done
