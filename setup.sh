#!/bin/sh
# Offline setup: nothing is fetched or compiled; verify the interpreter and the import path.
set -e
cd "$(dirname "$0")"
mkdir -p .cache/pyc evidence replays
PYTHONHASHSEED=0 /venv/bin/python -W ignore - <<'PY'
import sys
sys.path.insert(0, '/verif')
from vmc import env
env.setup()
import recognizers_suite, datatypes_timex_expression
n = env.assert_from_repo()
print('setup ok: %d library modules import from %s' % (n, env.REPO))
PY
