"""C12 - entities returned by one call never overlap."""
import re

from props import spans_common as sc
from props.spans_common import configure as _configure, worker_init  # noqa: F401

ID = 'C12'
RULE = ('same exploration as C01: every registered (model, culture) pair x {every Python-supported Specs model input of the culture; '
        'all 2-token and head 3-token sequences over the closed per-culture pool joined by " " or ""; pairs and triples of '
        'spec-derived entity expressions separated by " ", " and ", ", ", "-", ""}. Oracle: the entities of one model call, sorted '
        'by start, satisfy end_i < start_(i+1). Non-trivial = a call that returned >= 2 entities, pairwise disjoint; distinct = '
        'distinct (culture, model, query).')
ASSUMPTIONS = ['default options; adjacency (end_i + 1 == start_(i+1)) is allowed, sharing a character is not']
MIN_NONTRIVIAL = 2000


def configure(tier, seed):
    return _configure(tier, seed)


def body(ch):
    part, cul, q, ref = sc.build(ch)
    if part == 'normaliser':
        ch.prune()
    if part == 'shared-state-writes':
        res = sc.shared_state_writes(ch)
        if res:
            ch.fail(res[0], res[1])
        else:
            ch.ok(case=None, nontrivial=True, outcome='shared-state-writes')
        return
    if part == 'two-threads':
        (rec, mt), qs, plan, got, alone = sc.two_threads(ch)
        for tid, q in enumerate(qs):
            ents = got[tid]
            if isinstance(ents, str):
                ch.fail('two-threads|%s|exception' % mt, {'model': mt, 'queries': qs, 'plan': plan, 'error': ents})
                return
            if sc.overlap_error(ents):
                ch.fail('two-threads|%s|overlap' % mt, {'model': mt, 'queries': qs, 'plan': plan, 'thread': tid,
                                                       'entities': [(e.start, e.end, e.text) for e in ents]})
                return
        ch.ok(case=(mt, tuple(map(tuple, plan))), nontrivial=any(len(g) >= 2 for g in got if not isinstance(g, str)),
              outcome='two-threads|%s' % mt, evals=2)
        return
    for rec, mt, ents in sc.calls(cul, q, ref):
        err = sc.overlap_error(ents)
        if err:
            err, (a, b) = err
            shared = re.sub(r'\d', 'd', q[a:b + 1].lower())[:24]
            key = '%s|%s|%s|%s|shared=%r' % (cul, mt, part if part != 'specs' else 'specs:' + q[:40], err, shared)
            ch.fail(key, {'culture': cul, 'model': mt, 'query': q, 'reference': ref.isoformat(),
                          'entities': [(e.start, e.end, e.text) for e in ents]})
        else:
            ch.ok(case=(cul, mt, q), nontrivial=len(ents) >= 2, outcome='%s|%s|n=%d' % (part, mt, min(len(ents), 3)),
                  sample={'culture': cul, 'model': mt, 'query': q, 'entities': [(e.start, e.end, e.text) for e in ents]}
                  if len(ents) == 3 else None)


def canary():
    class E(object):
        def __init__(self, s, e):
            self.start, self.end = s, e
    if sc.overlap_error([E(0, 5), E(5, 9)]) is None or sc.overlap_error([E(0, 5), E(5, 9)])[1] != (5, 5):
        return 'oracle accepts a shared character'
    return True if sc.overlap_error([E(0, 4), E(5, 9)]) is None else 'oracle rejects adjacency'
