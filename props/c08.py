"""C08 - relative date expressions are calendar arithmetic on the reference date.
The quantifier over histories is the reference datetime: every day of whole years and every calendar
boundary of a 28-year window (all 14 year types) is enumerated, not sampled."""
from datetime import date, datetime, timedelta

from oracles import dt

ID = 'C08'
RULE = ('reference R = every day of seed-rotated full years + every month first/last day, Jan 1-3, Dec 29-31, Feb 28/29, Mar 1 of '
        'each year of a 28-year window (thorough: every day of the window, and every day 1950-2090 for week/month/year), plus a '
        '28-day window at 4 times of day; expressions = today/tomorrow/yesterday/now, N days|weeks ago / in N / from now, '
        'next/last/this x 7 weekdays, this/next/last x week|month|year (English), and the working day/week/month/year phrases of '
        '7 other cultures. Oracle: datetime/timedelta/isocalendar arithmetic. Non-trivial = entity found with the expected '
        'resolution; distinct = distinct (culture, expression, R).')
ASSUMPTIONS = ['week = ISO week [Monday, next Monday) with TIMEX year = ISO year of its Thursday',
               'other cultures: only phrases the Python port resolves to the right family at a probe reference are enumerated '
               '(list fixed in this driver; the others are recorded in DESIGN.md as unsupported by the port)',
               'results depend on the datedelta stand-in for month/year shifts (see DESIGN.md section 1)']
MIN_NONTRIVIAL = 5000
CFG = {}

WINDOW = (1996, 2023)
N_R_SWEEP = [1, 8, 366]
N_FULL = [1, 2, 3, 6, 7, 8, 30, 31, 365, 366, 1000, 4999, 5000]
TIMES = [(0, 0, 0), (0, 0, 1), (12, 0, 0), (23, 59, 59)]

OTHER = {
    'es-es': {'day': [('hoy', 0), ('mañana', 1), ('ayer', -1)],
              'week': [('esta semana', 0), ('la próxima semana', 1)], 'month': [('este mes', 0), ('el próximo mes', 1)],
              'year': [('este año', 0), ('el próximo año', 1)]},
    'fr-fr': {'day': [("aujourd'hui", 0), ('demain', 1), ('hier', -1)],
              'week': [('cette semaine', 0), ('la semaine prochaine', 1), ('la semaine dernière', -1)],
              'month': [('ce mois', 0)], 'year': []},
    'pt-br': {'day': [('hoje', 0), ('amanhã', 1), ('ontem', -1)], 'week': [('esta semana', 0), ('próxima semana', 1)],
              'month': [], 'year': [('este ano', 0), ('próximo ano', 1)]},
    'de-de': {'day': [('heute', 0), ('morgen', 1), ('gestern', -1)], 'week': [('diese woche', 0), ('nächste woche', 1)],
              'month': [('diesen monat', 0), ('nächsten monat', 1)], 'year': [('dieses jahr', 0), ('nächstes jahr', 1)]},
    'it-it': {'day': [('oggi', 0), ('domani', 1), ('ieri', -1)],
              'week': [('questa settimana', 0), ('la prossima settimana', 1), ('la scorsa settimana', -1)],
              'month': [('questo mese', 0), ('il prossimo mese', 1)], 'year': [("quest'anno", 0)]},
    'nl-nl': {'day': [('vandaag', 0), ('morgen', 1), ('gisteren', -1)],
              'week': [('deze week', 0), ('volgende week', 1), ('vorige week', -1)],
              'month': [('deze maand', 0), ('volgende maand', 1), ('vorige maand', -1)],
              'year': [('dit jaar', 0), ('volgend jaar', 1), ('vorig jaar', -1)]},
    'zh-cn': {'day': [('今天', 0), ('明天', 1), ('昨天', -1)], 'week': [('这周', 0), ('下周', 1), ('上周', -1)],
              'month': [('这个月', 0), ('下个月', 1), ('上个月', -1)], 'year': [('明年', 1), ('去年', -1)]},
}


def english_exprs(ns):
    ex = [('today', 'day', 0), ('tomorrow', 'day', 1), ('yesterday', 'day', -1), ('now', 'now', 0)]
    for n in ns:
        ex += [('%d day%s ago' % (n, '' if n == 1 else 's'), 'day', -n), ('in %d day%s' % (n, '' if n == 1 else 's'), 'day', n),
               ('%d day%s from now' % (n, '' if n == 1 else 's'), 'day', n),
               ('%d week%s ago' % (n, '' if n == 1 else 's'), 'day', -7 * n),
               ('in %d week%s' % (n, '' if n == 1 else 's'), 'day', 7 * n)]
    for rel, sh in (('this', 0), ('next', 1), ('last', -1)):
        for i, wd in enumerate(dt.WEEKDAYS_EN):
            ex.append(('%s %s' % (rel, wd), 'weekday', (sh, i)))
    for rel, sh in (('this', 0), ('next', 1), ('last', -1)):
        for unit in ('week', 'month', 'year'):
            ex.append(('%s %s' % (rel, unit), unit, sh))
    return ex


def boundaries(y):
    out = set()
    for m in range(1, 13):
        out.add(date(y, m, 1))
        out.add(date(y, m, dt.days_in_month(y, m)))
    for d in (1, 2, 3):
        out.add(date(y, 1, d))
    for d in (29, 30, 31):
        out.add(date(y, 12, d))
    out.add(date(y, 2, 28))
    out.add(date(y, 3, 1))
    out.add(date(y, 3, 30))          # day-of-month that the next/previous month may lack
    out.add(date(y, 1, 30))
    out.add(date(y, 5, 31))
    return out


def configure(tier, seed):
    thorough = tier == 'thorough'
    years = list(range(WINDOW[0], WINDOW[1] + 1))
    rs = set()
    full_years = years if thorough else [years[(seed * 5) % len(years)]]
    for y in full_years:
        d = date(y, 1, 1)
        while d.year == y:
            rs.add(d)
            d += timedelta(days=1)
    for y in years:
        rs |= boundaries(y)
    other_rs = set()
    for y in years:
        if thorough or y % 4 == seed % 4:
            other_rs |= boundaries(y)
    long_rs = []
    if thorough:
        d = date(1950, 1, 1)
        while d <= date(2090, 12, 31):
            long_rs.append(d)
            d += timedelta(days=1)
    tod_start = date(2019 + seed % 3, 12, 18)
    CFG.update(tier=tier, seed=seed, rs=sorted(rs), other_rs=sorted(other_rs), long_rs=long_rs,
               tod_rs=[tod_start + timedelta(days=i) for i in range(28)],
               n_rs=[date(2016, 11, 7), date(2020, 2, 29), date(1999, 12, 31), date(2021, 1, 1), date(1950, 6, 15),
                     date(2087, 3, 31), date(2019, 12, 30), date(2015, 12, 28), date(2024, 12, 31), date(2000, 2, 28),
                     date(2090, 12, 31), date(1975, 7, 4)],
               en_sweep=english_exprs(N_R_SWEEP), en_n=english_exprs(N_FULL if not thorough else list(range(1, 61)) + list(range(97, 5001, 97)) + [5000]),
               chunk=8)
    return {'shard_depth': 99, 'progress': True,
            'bounds': {'window': WINDOW, 'full_years': full_years, 'english_references': len(CFG['rs']),
                       'other_culture_references': len(CFG['other_rs']), 'every_day_1950_2090': len(long_rs),
                       'N_in_reference_sweep': N_R_SWEEP, 'N_in_amount_sweep': len(CFG['en_n']), 'times_of_day': TIMES},
            'blocks': ['all'] if thorough else ['full year %d' % full_years[0], 'other-culture boundary years = %d mod 4' % (seed % 4),
                                               'time-of-day window from %s' % tod_start]}


def worker_init():
    import os
    configure(os.environ['VERIF_TIER'], int(os.environ['VERIF_SEED']))


def expected(kind, arg, ref):
    """(type_name, [value dicts]) by plain calendar arithmetic"""
    d0 = ref.date()
    if kind == 'now':
        return 'datetime', [{'timex': 'PRESENT_REF', 'type': 'datetime', 'value': ref.strftime('%Y-%m-%d %H:%M:%S')}]
    if kind == 'day':
        iso = (d0 + timedelta(days=arg)).isoformat()
        return 'date', [{'timex': iso, 'type': 'date', 'value': iso}]
    if kind == 'weekday':
        shift, wd = arg
        monday = d0 - timedelta(days=d0.weekday())
        iso = (monday + timedelta(days=7 * shift + wd)).isoformat()
        return 'date', [{'timex': iso, 'type': 'date', 'value': iso}]
    if kind == 'week':
        monday = d0 - timedelta(days=d0.weekday()) + timedelta(days=7 * arg)
        iy, iw, _ = (monday + timedelta(days=3)).isocalendar()
        return 'daterange', [{'timex': '%04d-W%02d' % (iy, iw), 'type': 'daterange', 'start': monday.isoformat(),
                              'end': (monday + timedelta(days=7)).isoformat()}]
    if kind == 'month':
        idx = d0.year * 12 + d0.month - 1 + arg
        y, m = idx // 12, idx % 12 + 1
        ny, nm = (idx + 1) // 12, (idx + 1) % 12 + 1
        return 'daterange', [{'timex': '%04d-%02d' % (y, m), 'type': 'daterange', 'start': date(y, m, 1).isoformat(),
                              'end': date(ny, nm, 1).isoformat()}]
    if kind == 'year':
        y = d0.year + arg
        return 'daterange', [{'timex': '%04d' % y, 'type': 'daterange', 'start': '%04d-01-01' % y, 'end': '%04d-01-01' % (y + 1)}]
    raise ValueError(kind)


def observed_signature(kind, arg, ref, vals):
    """a short description of *how* a wrong answer is wrong, so that known findings stay specific"""
    try:
        if kind in ('week', 'month', 'year') and vals and len(vals) == 1 and 'start' in vals[0]:
            exp = expected(kind, arg, ref)[1][0]
            s = date.fromisoformat(vals[0]['start'])
            es = date.fromisoformat(exp['start'])
            if kind == 'month':
                return 'start-off-by-%+d-months' % ((s.year * 12 + s.month) - (es.year * 12 + es.month))
            return 'start-off-by-%+d-days' % (s - es).days if s != es else 'timex-or-end'
        if kind in ('day', 'weekday') and vals and len(vals) == 1:
            exp = expected(kind, arg, ref)[1][0]
            return 'off-by-%+d-days' % (date.fromisoformat(vals[0]['value']) - date.fromisoformat(exp['value'])).days
    except Exception:
        pass
    return 'other'


def run_one(ch, cul, expr, kind, arg, ref, fam):
    got = dt.run(cul, expr, ref)
    tname, vals = expected(kind, arg, ref)
    rec = {'culture': cul, 'query': expr, 'reference': ref.isoformat(), 'expected': vals, 'observed': got}
    cls = '%s|%s' % (cul, fam)
    if len(got) != 1 or (got[0][0], got[0][1]) != (0, len(expr) - 1):
        ch.fail('%s|%s' % (cls, 'missing' if not got else 'span-or-split'), rec)
    elif got[0][3] != 'datetimeV2.' + tname:
        ch.fail('%s|type' % cls, rec)
    elif got[0][4] != vals:
        d0 = ref.date()
        cond = ''
        if kind == 'month':
            idx = d0.year * 12 + d0.month - 1 + arg
            cond = '|R.day>len(target)' if d0.day > dt.days_in_month(idx // 12, idx % 12 + 1) else '|R.day-fits'
        ch.fail('%s|value|%s%s' % (cls, observed_signature(kind, arg, ref, got[0][4]), cond), rec)
    else:
        ch.ok(case=(cul, expr, ref), outcome=cls, sample=rec if kind in ('week', 'month') and ref.day > 28 else None)


def fam_of(expr, kind, arg):
    if kind == 'weekday':
        return 'weekday:%s' % expr.split()[0]
    if kind in ('week', 'month', 'year'):
        return '%s:%+d' % (kind, arg)
    if kind == 'now':
        return 'now'
    w = expr.split()
    if 'ago' in w:
        return 'ago:' + w[1].rstrip('s')
    if w[0] == 'in':
        return 'in:' + w[2].rstrip('s')
    if 'from' in w:
        return 'from-now:' + w[1].rstrip('s')
    return expr


def body(ch):
    part = ch.pick('part', ('en-reference-sweep', 'en-time-of-day', 'en-amount-sweep', 'other-cultures', 'every-day-1950-2090'))
    if part == 'en-reference-sweep':
        rs = CFG['rs']
        ci = ch.pick_index('chunk', (len(rs) + CFG['chunk'] - 1) // CFG['chunk'])
        ch.shard()
        d = ch.pick('R', rs[ci * CFG['chunk']:(ci + 1) * CFG['chunk']])
        expr, kind, arg = ch.pick('expression', CFG['en_sweep'])
        ref = datetime(d.year, d.month, d.day, 12, 0, 0)
        run_one(ch, 'en-us', expr, kind, arg, ref, fam_of(expr, kind, arg))
    elif part == 'en-time-of-day':
        d = ch.pick('R', CFG['tod_rs'])
        ch.shard()
        h, m, s = ch.pick('time', TIMES)
        expr, kind, arg = ch.pick('expression', CFG['en_sweep'])
        run_one(ch, 'en-us', expr, kind, arg, datetime(d.year, d.month, d.day, h, m, s), fam_of(expr, kind, arg))
    elif part == 'en-amount-sweep':
        d = ch.pick('R', CFG['n_rs'])
        ch.shard()
        exprs = [e for e in CFG['en_n'] if e[1] == 'day' and e[0][0].isdigit() or e[0].startswith('in ')]
        expr, kind, arg = ch.pick('expression', exprs)
        run_one(ch, 'en-us', expr, kind, arg, datetime(d.year, d.month, d.day, 9, 30, 0), fam_of(expr, kind, arg))
    elif part == 'other-cultures':
        cul = ch.pick('culture', list(OTHER))
        rs = CFG['other_rs']
        ci = ch.pick_index('chunk', (len(rs) + 15) // 16)
        ch.shard()
        d = ch.pick('R', rs[ci * 16:(ci + 1) * 16])
        phrases = [(p, k, a) for k in ('day', 'week', 'month', 'year') for (p, a) in OTHER[cul][k]]
        expr, kind, arg = ch.pick('expression', phrases)
        run_one(ch, cul, expr, kind, arg, datetime(d.year, d.month, d.day, 12, 0, 0), '%s:%+d' % (kind, arg))
    else:
        rs = CFG['long_rs']
        if not rs:
            ch.prune()
        ci = ch.pick_index('chunk', (len(rs) + 63) // 64)
        ch.shard()
        d = ch.pick('R', rs[ci * 64:(ci + 1) * 64])
        expr, kind, arg = ch.pick('expression', [e for e in CFG['en_sweep'] if e[1] in ('week', 'month', 'year')])
        h, m, s = TIMES[d.toordinal() % 4]
        run_one(ch, 'en-us', expr, kind, arg, datetime(d.year, d.month, d.day, h, m, s), fam_of(expr, kind, arg))


def canary():
    t, v = expected('week', 1, datetime(2018, 12, 26, 12, 0, 0))
    if v[0]['timex'] != '2019-W01' or v[0]['start'] != '2018-12-31':
        return 'week oracle wrong: %r' % (v,)
    t, v = expected('month', 1, datetime(2019, 1, 31))
    if v[0]['timex'] != '2019-02':
        return 'month oracle wrong'
    got = dt.run('en-us', 'tomorrow', datetime(2016, 11, 7))
    return True if got and got[0][4] != expected('day', 2, datetime(2016, 11, 7))[1] else 'oracle cannot fail'
