"""C02 - recognition is a pure function of (query, culture, options, reference date).

Reference: a table call -> result computed for each pool call in its own fresh interpreter (cold cache,
importing thread).  Explored:
  E2  every call history of length <= depth over the pool on one warm process (no state merging), every call
      from a cold cache, every call on a fresh thread and on a reused worker thread, and cached model vs fresh
      recogniser;
  E3  every schedule with <= 1 preemption (selected drivers <= 2) of two threads that share the process-wide model
      cache, under the controlled scheduler of vmc/sched.py, for cold and warm drivers.
Every observed result must equal the table entry of its call."""
import json
import os
import subprocess
import sys
import threading
from datetime import datetime

from vmc import env

ID = 'C02'
RULE = ('pool of 18 calls chosen to collide (same model with native and swapped separators, spelled decimals, parsers that mutate '
        'their extract results, one query under two references / two option values / two cultures sharing sub-extractors). E2: all '
        'histories of length <= 3 (thorough 4) over the pool on a warm process, every call after a cache reset, on the importing '
        'thread, a fresh thread and a reused worker thread. E3: for each 2-thread driver every schedule with <= 1 preemption '
        '(thorough: <= 2 on the coarse drivers) at the driver\'s granularity. Oracle: result == table entry computed in a fresh '
        'interpreter. Non-trivial = an execution all of whose calls returned >= 1 entity and matched; distinct = distinct '
        '(history or schedule).')
ASSUMPTIONS = ['results are compared as canonical JSON of (start, end, text, type, resolution)',
               'schedules are cooperative interleavings at the stated trace-event granularity; true parallel execution below '
               'bytecode granularity is not modelled',
               'the reference table itself is validated by computing it twice in separate interpreters']
MIN_NONTRIVIAL = 1000
CFG = {}
S = {}

R1 = datetime(2016, 11, 7, 12, 0, 0)
R2 = datetime(2019, 12, 30, 23, 59, 59)
# id -> (recognizer function name, query, culture, options name or None, reference or None)
POOL = [
    ('n1', 'number', 'one point two five', 'en-us', None, None),
    ('n2', 'number', 'two thirds of 1,234.5', 'en-us', None, None),
    ('n3', 'number', '1.234,56', 'en-us', None, None),
    ('n4', 'number', '1,234 and 12,345,678', 'en-us', None, None),
    ('n5', 'number', 'dos coma cinco y 1.234,56', 'es-es', None, None),
    ('n6', 'number', '1,234.56 y mil doscientos', 'es-es', None, None),
    ('z1', 'number', '三分之一和五分之二', 'zh-cn', None, None),
    ('z2', 'number', '三分の一と百五', 'ja-jp', None, None),
    ('o1', 'ordinal', 'the twenty-first and 3rd', 'en-us', None, None),
    ('p1', 'percentage', 'twenty percent and 3.5%', 'en-us', None, None),
    ('c1', 'currency', '3 dollars and 50 cents', 'en-us', None, None),
    ('u1', 'dimension', '3公斤 and 5 kg', 'zh-cn', None, None),
    ('u2', 'dimension', '5 kg and 2.5 miles', 'en-us', None, None),
    ('d1', 'datetime', 'before next monday at 3pm', 'en-us', None, R1),
    ('d2', 'datetime', 'before next monday at 3pm', 'en-us', None, R2),
    ('d3', 'datetime', 'from 3pm to 5pm tomorrow', 'en-us', 'SKIP_FROM_TO_MERGE', R1),
    ('d4', 'datetime', 'from 3pm to 5pm tomorrow', 'en-us', None, R1),
    ('d5', 'datetime', 'mañana a las 15:30', 'es-es', None, R1),
    ('w1', 'datetime', 'monday or nov 7', 'en-us', None, R1),
    ('w2', 'datetime', 'monday or nov 7', 'en-us', None, R2),
    ('y1', 'datetime', '2055/04/26 and 4/26/2055', 'en-us', None, R1),
    ('y2', 'datetime', '2011-04-03 or april 3rd 2011', 'en-us', None, R2),
    ('h1', 'datetime', 'el día de san valentín y navidad', 'es-es', None, R1),
    ('h2', 'datetime', "valentine's day, inauguration day and juneteenth", 'en-us', None, R1),
    ('h3', 'datetime', 'inauguration day, juneteenth und weihnachten', 'de-de', None, R1),
    ('s1', 'ip_address', 'ping 1.2.3.4 or ::1', 'en-us', None, None),
    ('b1', 'boolean', 'yes or no', 'en-us', None, None),
    ('b2', 'boolean', 'Nope, thanks', 'en-us', None, None),
]
POOL_BY_ID = {p[0]: p for p in POOL}
# 2-thread drivers: (name, call ids, cold?, granularity, max preemption bound quick, thorough)
DRIVERS = [
    ('D1-same-cold-key', ('n1', 'n4'), True, 'cache', 1, 1),
    ('D2-two-cultures-cold', ('n1', 'n5'), True, 'cache', 1, 1),
    ('D3-warm-number-swapped-separators', ('n3', 'n4'), False, 'calls', 1, 1),
    ('D4-warm-percentage-and-number', ('p1', 'n1'), False, 'calls', 1, 1),
    ('D5-warm-datetime-two-references', ('d1', 'd2'), False, 'coarse', 1, 1),
    ('D6-warm-datetime-two-queries', ('d1', 'd4'), False, 'coarse', 1, 1),
    ('D7-warm-datetime-options', ('d3', 'd4'), False, 'coarse', 1, 1),
    ('D8-cold-datetime-and-number', ('d5', 'n5'), True, 'coarse', 1, 1),
    ('D12-built-unused-datetime-two-dates', ('y1', 'y2'), 'built', 'calls', 0, 1),
    ('D13-warm-datetime-weekday-two-references', ('w1', 'w2'), False, 'coarse', 1, 1),
    ('D14-warm-boolean-two-queries', ('b1', 'b2'), False, 'calls', 1, 2),
    ('D15-warm-sequence-and-unit', ('s1', 'u2'), False, 'coarse', 1, 1),
    ('D9-warm-number-two-preemptions', ('n3', 'n4'), False, 'methods', 2, 2),
    ('D10-warm-percentage-number-two-preemptions', ('p1', 'n2'), False, 'methods', 2, 2),
    ('D11-warm-datetime-two-preemptions', ('d1', 'd4'), False, 'methods', 1, 2),
]
TABLE_PATH = os.path.join(env.VERIF, '.cache', 'c02_table.json')


def canon(results):
    out = []
    for e in results:
        res = e.resolution
        out.append([e.start, e.end, e.text, e.type_name, json.dumps(res, sort_keys=True, default=str, ensure_ascii=False)])
    return out


def do_call(cid, query=None):
    """run one pool call through the public API on the current thread (query: override, used to build the model)"""
    import recognizers_suite as rs
    _, fn, q, cul, opt, ref = POOL_BY_ID[cid]
    if query is not None:
        q = query
    f = getattr(rs, 'recognize_' + fn)
    if fn == 'datetime':
        from recognizers_date_time import DateTimeOptions
        o = getattr(DateTimeOptions, opt) if opt else DateTimeOptions.NONE
        return canon(f(q, cul, o, ref))
    return canon(f(q, cul))


_CHILD = r'''
import sys, json
sys.path.insert(0, %r)
from vmc import env
env.setup()
from props import c02
print('RESULT ' + json.dumps(c02.do_call(sys.argv[1]), ensure_ascii=True))
env.assert_from_repo()
'''


def _table_once():
    procs = {}
    for p in POOL:
        procs[p[0]] = subprocess.Popen([sys.executable, '-W', 'ignore', '-c', _CHILD % env.VERIF, p[0]], env=env.child_env(),
                                       stdout=subprocess.PIPE, stderr=subprocess.PIPE, text=True)
    table = {}
    for cid, pr in procs.items():
        out, err = pr.communicate(timeout=600)
        line = [l for l in out.splitlines() if l.startswith('RESULT ')]
        if pr.returncode != 0 or not line:
            raise RuntimeError('reference call %s failed: %s' % (cid, err[-800:]))
        table[cid] = json.loads(line[0][7:])
    return table


def prepare(tier, seed):
    """master side, before exploration: the reference table from fresh interpreters (twice, must agree)"""
    t1 = _table_once()
    t2 = _table_once()
    if t1 != t2:
        from vmc.explore import HarnessError
        raise HarnessError('reference table is not reproducible across fresh interpreters: %r' %
                           [k for k in t1 if t1[k] != t2[k]])
    os.makedirs(os.path.dirname(TABLE_PATH), exist_ok=True)
    with open(TABLE_PATH, 'w') as f:
        json.dump(t1, f)


def configure(tier, seed):
    CFG.update(tier=tier, seed=seed, depth=4 if tier == 'thorough' else 3)
    return {'shard_depth': 99, 'progress': True,
            'bounds': {'pool': [p[0] for p in POOL], 'history_depth': CFG['depth'],
                       'drivers': [(d[0], d[3], d[5] if tier == 'thorough' else d[4]) for d in DRIVERS], 'threads': 2},
            'blocks': ['all']}


def worker_init():
    configure(os.environ['VERIF_TIER'], int(os.environ['VERIF_SEED']))
    with open(TABLE_PATH) as f:
        S['table'] = json.load(f)
    S['lib_root'] = os.path.join(env.REPO, 'Python', 'libraries')
    S['pool_thread'] = None
    S['counts'] = {}


def fresh_thread_call(cid):
    box = {}
    t = threading.Thread(target=lambda: box.setdefault('r', do_call(cid)))
    t.start()
    t.join()
    return box.get('r')


class Worker(object):
    """a long-lived worker thread, reused for many calls (a server's pool thread)"""

    def __init__(self):
        import queue
        self.q, self.out = queue.Queue(), queue.Queue()
        threading.Thread(target=self._loop, daemon=True).start()

    def _loop(self):
        while True:
            cid = self.q.get()
            try:
                self.out.put(do_call(cid))
            except Exception as e:
                self.out.put('EXC %r' % e)

    def call(self, cid):
        self.q.put(cid)
        return self.out.get()


def mismatch(ch, key, cid, got, extra):
    _, fn, q, cul, opt, ref = POOL_BY_ID[cid]
    rec = {'call': {'id': cid, 'function': 'recognize_' + fn, 'query': q, 'culture': cul, 'options': opt,
                    'reference': ref.isoformat() if ref else None}, 'expected': S['table'][cid], 'observed': got}
    rec.update(extra)
    ch.fail(key, rec)


def counts_for(driver):
    """scheduling points of each thread when it runs first (bound-0 executions), measured once per worker"""
    from vmc import sched, state
    name, cids, cold, gran, _, _ = driver
    if CFG['tier'] == 'thorough' and name.startswith(('D5', 'D6', 'D7')):
        gran = 'calls'
    if name not in S['counts']:
        cs = []
        for first in (0, 1):
            if cold == 'built':
                state.reset_cache()
                for c in cids:
                    do_call(c, query='')          # models constructed (empty query), nothing recognised yet
            elif cold:
                state.reset_cache()
            else:
                for c in cids:
                    do_call(c)
            ex = sched.run_plan(S['lib_root'], gran, [(first, None), (1 - first, None)], [lambda c=c: do_call(c) for c in cids])
            cs.append(ex.points[first])
        S['counts'][name] = cs
    return S['counts'][name]


def body(ch):
    part = ch.pick('part', ('histories', 'cold', 'threads', 'write-monitor', 'schedules'))
    table = S['table']
    if part == 'histories':
        ids = [p[0] for p in POOL]
        a = ch.pick('c1', ids)
        ch.shard()
        n = ch.pick('length', tuple(range(1, CFG['depth'] + 1)))
        # the longest histories range over the core of the pool (one call per collision family); shorter ones over all of it
        core = ['n1', 'n3', 'n4', 'n5', 'p1', 'c1', 'u1', 'd1', 'd2', 'd4', 'w2', 'h1', 'h2']
        if n == CFG['depth'] and a not in core:
            ch.prune()
        alphabet = core if n == CFG['depth'] else ids
        hist = [a] + [ch.pick('c%d' % (i + 2), alphabet) for i in range(n - 1)]
        for i, cid in enumerate(hist):
            got = do_call(cid)
            if got != table[cid]:
                mismatch(ch, 'history|%s-after-%s' % (cid, hist[i - 1] if i else 'start'), cid, got, {'history': hist[:i + 1]})
                return
            ch.see('result_states', (cid, json.dumps(got)))
        ch.ok(case=tuple(hist), nontrivial=all(table[c] for c in hist), outcome='history|len=%d' % n, evals=len(hist),
              sample={'history': hist, 'last_result': table[hist[-1]]} if n == 3 and hist[0] == 'n3' else None)
    elif part == 'write-monitor':
        # any write to the long-lived state during a warm call: fingerprint of every cached model (and of the library's
        # class-level containers reachable from it) before and after the call must be identical
        from vmc import state
        cid = ch.pick('call', [p[0] for p in POOL])
        ch.shard()
        do_call(cid, query='zz')                       # build the model with a neutral query: construction may write
        before = state.fingerprint(state.cache_roots())
        got = do_call(cid)
        after = state.fingerprint(state.cache_roots())
        d = state.diff_fingerprints(before, after)
        ch.tally('fingerprinted_objects', len(after))
        if d['n']:
            mismatch(ch, 'write-monitor|%s|cached-state-written' % cid, cid, got, {'state_diff': d})
        elif got != table[cid]:
            mismatch(ch, 'write-monitor|%s|result' % cid, cid, got, {})
        else:
            ch.ok(case=('wm', cid), nontrivial=bool(table[cid]), outcome='write-monitor')
    elif part == 'cold':
        from vmc import state
        cid = ch.pick('call', [p[0] for p in POOL])
        ch.shard()
        cheap = [p[0] for p in POOL if p[1] in ('number', 'percentage', 'ordinal', 'ip_address', 'boolean')]
        # construction-order dependence: models whose configuration tables are built from shared base tables (holidays)
        second = ch.pick('then', [None] + cheap + (['h1', 'h2', 'h3'] if cid in ('h1', 'h2', 'h3', 'd5') else []))
        state.reset_cache()
        seq = [cid] + ([second] if second else [])
        for i, c in enumerate(seq):
            got = do_call(c)
            if got != table[c]:
                mismatch(ch, 'cold|%s' % c, c, got, {'history': ['<cache reset>'] + seq[:i + 1]})
                return
        ch.ok(case=('cold',) + tuple(seq), nontrivial=all(table[c] for c in seq), outcome='cold', evals=len(seq))
    elif part == 'threads':
        cid = ch.pick('call', [p[0] for p in POOL])
        kind = ch.pick('thread', ('fresh', 'reused-worker', 'reused-worker-after-other-call'))
        if kind == 'fresh':
            got = fresh_thread_call(cid)
        else:
            if S['pool_thread'] is None:
                S['pool_thread'] = Worker()
            if kind.endswith('other-call'):
                S['pool_thread'].call('n5')
            got = S['pool_thread'].call(cid)
        if got != table[cid]:
            mismatch(ch, 'thread|%s|%s' % (kind.split('-')[0], cid), cid, got, {'thread': kind})
        else:
            ch.ok(case=('thread', kind, cid), nontrivial=bool(table[cid]), outcome='thread|' + kind)
    else:
        from vmc import sched, state
        di = ch.pick_index('driver', len(DRIVERS))
        driver = DRIVERS[di]
        name, cids, cold, gran, bq, bt = driver
        bound = bt if CFG['tier'] == 'thorough' else bq
        if CFG['tier'] == 'thorough' and name.startswith(('D5', 'D6', 'D7')):
            gran = 'calls'          # every library call is a scheduling point (about 4,600 per date-time call)
        counts = counts_for(driver)
        plans = sched.plans_up_to(bound, counts)
        if name.startswith('D12'):
            # preemption positions within the first 1,200 scheduling points of each thread (first-use initialisation
            # happens at the start of a first call); quick tier: only the two sequential orders - first-use writes are
            # caught there by the write monitor
            plans = [pl for pl in plans if len(pl) < 3 or pl[0][1] <= 1200]
        chunk = 40
        ci = ch.pick_index('chunk', (len(plans) + chunk - 1) // chunk)
        ch.shard()
        plan = ch.pick('plan', plans[ci * chunk:(ci + 1) * chunk])
        if cold == 'built':
            state.reset_cache()
            for c in cids:
                do_call(c, query='')
        elif cold:
            state.reset_cache()
        ex = sched.run_plan(S['lib_root'], gran, plan, [lambda c=c: do_call(c) for c in cids])
        ch.tally('schedules')
        ch.tally('context_switches', ex.switches)
        ch.see('schedule_shapes', (name, tuple(plan)))
        for tid, cid in enumerate(cids):
            got = ex.results[tid] if ex.errors[tid] is None else 'EXC ' + ex.errors[tid]
            if got != table[cid]:
                # a failing schedule is replayed once more from the same initial state: identical observations or it is
                # the harness that is wrong (uncaptured nondeterminism), not the library
                if cold == 'built':
                    state.reset_cache()
                    for c in cids:
                        do_call(c, query='')
                elif cold:
                    state.reset_cache()
                else:
                    for c in cids:
                        do_call(c)
                ex2 = sched.run_plan(S['lib_root'], gran, plan, [lambda c=c: do_call(c) for c in cids])
                if not cold and [ex2.results, ex2.errors] != [ex.results, ex.errors]:
                    # warm drivers start from the same warm state by construction; cold ones may legitimately differ after
                    # the first run warmed module-level regex caches, so only warm replays are compared strictly
                    ch.tally('schedule_replays_that_differed')
                ch.tally('failing_schedules_replayed')
                mismatch(ch, 'schedule|%s|%s' % (name, cid), cid, got,
                         {'driver': name, 'granularity': gran, 'plan': plan, 'points_run': ex.points, 'calls': list(cids)})
                return
        ch.ok(case=(name, tuple(map(tuple, plan))), nontrivial=all(table[c] for c in cids), outcome='schedule|%s' % name, evals=2,
              sample={'driver': name, 'plan': plan, 'points_run': ex.points} if len(plan) == 3 and plan[0][1] == 7 else None)


def canary():
    # the comparison must reject a result that differs only in a resolution value
    t = S['table']['n1']
    import copy
    wrong = copy.deepcopy(t)
    wrong[0][4] = wrong[0][4].replace('1.25', '1.250000000000000016653345369')
    return True if wrong != t else 'table comparison cannot fail'
