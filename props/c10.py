"""C10 - durations and explicit ranges are arithmetically self-consistent."""
from datetime import date, datetime, timedelta

from oracles import dt, specs

ID = 'C10'
RULE = ('durations: N in {1..60, 99,100,101,365,999,1000,1001,4999,5000} (thorough 1..5000) x 7 units x {"N unit", "for N unit"}; '
        'ranges: every ordered pair of 12 absolute dates (2 layouts), 10 clock times and 6 datetimes in "from A to B" / "between A '
        'and B" / "A - B"; and every entity the date-time model produces on every Python-supported Specs input of every culture. '
        'Oracle: TIMEX P[T]N<U> and value = N x unit seconds; endpoints equal the stated ones; for every (start,end,duration) '
        'TIMEX with definite endpoints, start/end equal the resolved values and end - start equals the duration. Non-trivial = a '
        'duration or a range with a definite triple was produced and checked; distinct = distinct (culture, query, reference).')
ASSUMPTIONS = ['month = 2,592,000 s and year = 31,536,000 s are the library\'s documented unit lengths',
               'a pure time range may wrap past midnight (from 23:00 to 1:00 = PT2H)',
               'durations in months/years inside a triple are compared calendar-wise']
MIN_NONTRIVIAL = 800
CFG = {}
UNITS = [('second', 'S', 1, True), ('minute', 'M', 60, True), ('hour', 'H', 3600, True), ('day', 'D', 86400, False),
         ('week', 'W', 604800, False), ('month', 'M', 2592000, False), ('year', 'Y', 31536000, False)]
REF = datetime(2016, 11, 7, 12, 0, 0)
REFS = [REF, datetime(2019, 6, 14, 10, 20, 37), datetime(2020, 2, 29, 23, 59, 59)]
DATES = [date(1900, 1, 1), date(1999, 12, 31), date(2000, 1, 1), date(2000, 2, 29), date(2016, 1, 5), date(2016, 2, 7),
         date(2016, 11, 7), date(2016, 12, 31), date(2017, 1, 1), date(2020, 2, 28), date(2020, 3, 1), date(2099, 12, 31)]
TIMES = [(0, 0), (0, 30), (8, 0), (9, 15), (11, 59), (12, 0), (13, 5), (15, 0), (17, 30), (23, 59)]
DATETIMES = [datetime(2016, 1, 5, 15, 0), datetime(2016, 1, 5, 16, 30), datetime(2016, 1, 6, 15, 0), datetime(2016, 1, 8, 15, 5),
             datetime(2016, 2, 29, 23, 0), datetime(2016, 3, 1, 0, 30)]


def configure(tier, seed):
    ns = list(range(1, 5001)) if tier == 'thorough' else list(range(1, 61)) + [99, 100, 101, 365, 999, 1000, 1001, 4999, 5000]
    CFG.update(tier=tier, ns=ns)
    return {'shard_depth': 99, 'progress': True,
            'bounds': {'N': len(ns), 'units': [u[0] for u in UNITS], 'dates': len(DATES), 'times': len(TIMES),
                       'datetimes': len(DATETIMES)},
            'blocks': ['all']}


def worker_init():
    import os
    configure(os.environ['VERIF_TIER'], int(os.environ['VERIF_SEED']))
    CFG['spec_cases'] = [(s['culture'], s['file'], i, spec) for (s, i, spec) in specs.supported_cases('DateTime', 'Model')
                         if s['model'] == 'DateTime' and not s['options'] and s['culture'] in dt.CULTURES + ['es-mx']]


def fmt_date(d, layout):
    return d.isoformat() if layout == 'iso' else '%s %d, %d' % (dt.MONTHS['en-us'][d.month - 1], d.day, d.year)


def fmt_time(t, layout, sec=None):
    h, m = t
    ss = '' if sec is None else ':%02d' % sec
    if layout == '24h':
        return '%d:%02d%s' % (h, m, ss)
    hh = h % 12 or 12
    return '%d:%02d%s%s' % (hh, m, ss, 'am' if h < 12 else 'pm')


# endpoints written to the second: (seconds of the first endpoint, seconds of the second) - remainders in every term of the span
SECONDS = (None, (15, 50), (45, 10))


def check_range(ch, cls, q, typ, start, end):
    ref = ch.pick('reference', REFS)          # absolute endpoints: the reference (incl. its seconds) must not matter
    got = dt.run('en-us', q, ref)
    rec = {'query': q, 'reference': ref.isoformat(), 'expected': {'start': start, 'end': end}, 'observed': got}
    if len(got) != 1 or (got[0][0], got[0][1]) != (0, len(q) - 1):
        ch.fail('%s|%s|%s..%s' % (cls, 'missing' if not got else 'span-or-split', start, end), rec)
        return
    s, e, text, tn, vals = got[0]
    if tn != 'datetimeV2.' + typ or not vals or len(vals) != 1:
        ch.fail('%s|type-or-count|%s..%s' % (cls, start, end), rec)
        return
    v = vals[0]
    if v.get('start') != start or v.get('end') != end:
        bad_exp, bad_got = (start, v.get('start')) if v.get('start') != start else (end, v.get('end'))
        sig = 'year-replaced' if isinstance(bad_got, str) and bad_got[4:] == bad_exp[4:] and len(bad_exp) == 10 else \
            'endpoint=%s' % bad_exp
        if '-02-29' in start or '-02-29' in end:
            sig += '|one-endpoint-is-feb-29'
        if (v.get('start'), v.get('end')) == (start[:-2] + '00', end[:-2] + '00') and (start[-2:], end[-2:]) != ('00', '00'):
            sig = 'seconds-dropped'
        ch.fail('%s|endpoints|%s' % (cls, sig), rec)
        return
    err = dt.triple_consistent(v)
    if err:
        ch.fail('%s|%s' % (cls, err), rec)
    elif not dt._TRIPLE.match(v.get('timex') or ''):
        ch.fail('%s|timex-not-a-triple' % cls, rec)
    else:
        ch.ok(case=('en-us', q, ref), outcome=cls, sample=rec)


def body(ch):
    part = ch.pick('part', ('duration', 'date-range', 'time-range', 'datetime-range', 'specs'))
    if part == 'duration':
        name, code, secs, is_time = ch.pick('unit', UNITS)
        ch.shard()
        n = ch.pick('N', CFG['ns'])
        pre = ch.pick('form', ('', 'for ', 'it lasted '))
        lit = '%d %s%s' % (n, name, '' if n == 1 else 's')
        q = pre + lit
        got = dt.run('en-us', q, REF)
        exp = [{'timex': 'P%s%d%s' % ('T' if is_time else '', n, code), 'type': 'duration', 'value': str(n * secs)}]
        rec = {'query': q, 'reference': REF.isoformat(), 'expected': exp, 'observed': got}
        cls = 'duration|%s' % name
        hit = [g for g in got if (g[0], g[1]) == (len(pre), len(q) - 1)]
        if len(got) != 1 or not hit:
            ch.fail('%s|%s' % (cls, 'missing' if not got else 'span-or-split'), rec)
        elif hit[0][3] != 'datetimeV2.duration' or hit[0][4] != exp:
            vals = hit[0][4]
            kind = 'type' if hit[0][3] != 'datetimeV2.duration' else \
                'timex' if vals and vals[0].get('timex') != exp[0]['timex'] else 'value'
            ch.fail('%s|%s|%s' % (cls, kind, 'N>1000' if n > 1000 else 'N<=1000'), rec)
        else:
            ch.ok(case=('en-us', q, REF), outcome=cls, sample=rec if n == 90 else None)
    elif part == 'date-range':
        layout = ch.pick('layout', ('iso', 'name'))
        form = ch.pick('form', ('from %s to %s', 'between %s and %s', '%s - %s'))
        ch.shard()
        i = ch.pick_index('A', len(DATES) - 1)
        j = ch.pick('B', range(i + 1, len(DATES)))
        a, b = DATES[i], DATES[j]
        check_range(ch, 'date-range|%s|%s' % (layout, form.split('%s')[1].strip() or 'from-to'),
                    form % (fmt_date(a, layout), fmt_date(b, layout)), 'daterange', a.isoformat(), b.isoformat())
    elif part == 'time-range':
        layout = ch.pick('layout', ('24h', '12h'))
        form = ch.pick('form', ('from %s to %s', 'between %s and %s'))
        ch.shard()
        i = ch.pick_index('A', len(TIMES) - 1)
        j = ch.pick('B', range(i + 1, len(TIMES)))
        a, b = TIMES[i], TIMES[j]
        if layout == '24h' and (1 <= a[0] <= 12 or 1 <= b[0] <= 12):
            ch.prune()          # ambiguous hours have two readings: outside "absolute endpoints"
        sec = ch.pick('seconds', SECONDS)
        sa, sb = sec or (None, None)
        check_range(ch, 'time-range|%s%s' % (layout, '|to-the-second' if sec else ''),
                    form % (fmt_time(a, layout, sa), fmt_time(b, layout, sb)), 'timerange',
                    '%02d:%02d:%02d' % (a + (sa or 0,)), '%02d:%02d:%02d' % (b + (sb or 0,)))
    elif part == 'datetime-range':
        form = ch.pick('form', ('from %s to %s', 'between %s and %s'))
        ch.shard()
        i = ch.pick_index('A', len(DATETIMES) - 1)
        j = ch.pick('B', range(i + 1, len(DATETIMES)))
        a, b = DATETIMES[i], DATETIMES[j]
        sec = ch.pick('seconds', SECONDS)
        sa, sb = sec or (None, None)
        a, b = a.replace(second=sa or 0), b.replace(second=sb or 0)
        f = lambda x, ss: '%s %s' % (x.date().isoformat(), fmt_time((x.hour, x.minute), '12h', ss))
        check_range(ch, 'datetime-range%s' % ('|to-the-second' if sec else ''), form % (f(a, sa), f(b, sb)), 'datetimerange',
                    a.strftime('%Y-%m-%d %H:%M:%S'), b.strftime('%Y-%m-%d %H:%M:%S'))
    else:
        cases = CFG['spec_cases']
        ci = ch.pick_index('chunk', (len(cases) + 39) // 40)
        ch.shard()
        cul, fname, idx, spec = ch.pick('case', cases[ci * 40:(ci + 1) * 40])
        ref = specs.reference_of(spec, REF)
        got = dt.run(cul, spec['Input'], ref)
        n_triples = 0
        for g in got:
            for v in (g[4] or []):
                if dt._TRIPLE.match(v.get('timex') or ''):
                    n_triples += 1
                    err = dt.triple_consistent(v)
                    if err:
                        ch.fail('specs|%s#%d|%s' % (fname, idx, err),
                                {'culture': cul, 'query': spec['Input'], 'reference': ref.isoformat(), 'observed': got, 'value': v})
                        return
        ch.ok(case=(cul, spec['Input'], ref), nontrivial=n_triples > 0, outcome='specs|triples=%d' % min(n_triples, 3))


def canary():
    if dt.triple_consistent({'timex': '(2016-01-05,2016-02-07,P33D)', 'start': '2016-01-05', 'end': '2016-02-07'}) is not None:
        return 'oracle rejects a consistent triple'
    if dt.triple_consistent({'timex': '(2016-01-05,2016-02-07,P32D)', 'start': '2016-01-05', 'end': '2016-02-07'}) is None:
        return 'oracle accepts an inconsistent triple'
    if dt.triple_consistent({'timex': '(2019-01-01T15,2019-01-04T15:05,PT5M)', 'start': '2019-01-01 15:00:00',
                             'end': '2019-01-04 15:05:00'}) is None:
        return 'oracle accepts a lost-hours duration'
    return True
