"""C18 - generated pattern resources are faithful to the shared Patterns YAML.
Depth-0 exhaustive comparison: the repository's own generator is run on Patterns/*.yaml for every entry of
the five resource-definitions.json files (into a scratch directory outside /repo) and every definition of
every generated module is compared with the checked-in module, definition by definition."""
import ast
import json
import os
import sys
import tempfile

from vmc import env

ID = 'C18'
RULE = ('every definition (class attribute or generated function) of every output module named in the resource-definitions.json '
        'of the 5 packages: the checked-in definition must equal, as a Python AST, what the repository\'s generator produces '
        'from Patterns/*.yaml now; module-level headers/footers and the sets of names must agree too. Non-trivial = a '
        'definition present on both sides and equal; distinct = distinct (module, name).')
ASSUMPTIONS = ['the generator runs on the ruamel.yaml stand-in of /verif/shims (vendored pure-Python PyYAML); tagged nodes are read raw',
               'input file names are resolved case-insensitively (two entries differ from the file names in case only)',
               'definitions are compared as ASTs, so quoting and line-wrapping differences do not count']
MIN_NONTRIVIAL = 3000
CFG = {}
S = {}
PACKAGES = ['recognizers-number', 'recognizers-number-with-unit', 'recognizers-date-time', 'recognizers-sequence', 'recognizers-choice']


def configure(tier, seed):
    return {'shard_depth': 2, 'progress': True, 'bounds': {'packages': PACKAGES}, 'blocks': ['all']}


def worker_init():
    lib = os.path.join(env.REPO, 'Python', 'libraries')
    gen = os.path.join(lib, 'resource-generator')
    if gen not in sys.path:
        sys.path.insert(0, gen)
    S['lib'] = lib
    S['patterns'] = os.path.join(env.REPO, 'Patterns')
    S['scratch'] = tempfile.mkdtemp(prefix='c18_', dir=os.path.join(env.VERIF, '.cache'))
    mods = []
    for pkg in PACKAGES:
        spec = json.load(open(os.path.join(lib, pkg, 'resource-definitions.json')))
        for cf in spec['configFiles']:
            mods.append((pkg, spec['outputPath'], cf))
    S['modules'] = mods
    S['defs'] = {}


def _resolve_ci(path):
    """case-insensitive resolution of a path below Patterns/"""
    cur = S['patterns']
    for part in path:
        cand = [x for x in os.listdir(cur) if x.lower() == part.lower()]
        if not cand:
            return None
        cur = os.path.join(cur, sorted(cand, key=lambda x: x != part)[0])
    return cur


def _definitions(source):
    """(module-level statement dumps, {name: ast dump}) of a resource module"""
    tree = ast.parse(source)
    top, defs = [], {}
    for node in tree.body:
        if isinstance(node, ast.ClassDef):
            for st in node.body:
                if isinstance(st, ast.Assign) and len(st.targets) == 1 and isinstance(st.targets[0], ast.Name):
                    defs[st.targets[0].id] = ast.dump(st.value)
                elif isinstance(st, ast.FunctionDef):
                    defs[st.name] = ast.dump(st)
                elif isinstance(st, ast.Expr) and isinstance(st.value, ast.Constant):
                    continue
                else:
                    defs['<stmt:%d>' % len(defs)] = ast.dump(st)
            top.append('class ' + node.name)
        else:
            top.append(ast.dump(node))
    return top, defs


def module_defs(mi):
    if mi in S['defs']:
        return S['defs'][mi]
    from lib.base_code_generator import generate
    pkg, out_path, cf = S['modules'][mi]
    checked = os.path.join(S['lib'], pkg, out_path, cf['output'] + '.py')
    parts = list(cf['input'])
    parts[-1] += '.yaml'
    src = _resolve_ci(parts)
    res = {'module': '%s/%s.py' % (pkg, cf['output']), 'error': None}
    if src is None:
        res['error'] = 'input-yaml-missing:%s' % '/'.join(parts)
    else:
        out = os.path.join(S['scratch'], '%d_%s.py' % (mi, cf['output']))
        try:
            generate(src, out, '\n'.join(cf['header']), '\n'.join(cf['footer']))
            res['gen_top'], res['gen'] = _definitions(open(out, encoding='utf-8').read())
            res['cur_top'], res['cur'] = _definitions(open(checked, encoding='utf-8').read())
            os.remove(out)
        except Exception as e:
            res['error'] = 'generator-or-parse-error:%s' % type(e).__name__
            res['detail'] = repr(e)
    S['defs'][mi] = res
    return res


def body(ch):
    mi = ch.pick_index('module', len(S['modules']))
    ch.shard()
    res = module_defs(mi)
    mod = res['module']
    if res['error']:
        ch.fail('%s|%s' % (mod, res['error']), {'module': mod, 'error': res['error'], 'detail': res.get('detail')})
        return
    names = ['<module-level>'] + sorted(set(res['gen']) | set(res['cur']))
    name = ch.pick('definition', names)
    if name == '<module-level>':
        if res['gen_top'] != res['cur_top']:
            ch.fail('%s|<module-level>|header-or-footer-differs' % mod, {'module': mod, 'generated': res['gen_top'][:6], 'checked_in': res['cur_top'][:6]})
        else:
            ch.ok(case=(mod, name), outcome='module-level')
        return
    g, c = res['gen'].get(name), res['cur'].get(name)
    if g is None or c is None:
        ch.fail('%s|%s|%s' % (mod, name, 'only-in-yaml' if c is None else 'only-in-python'), {'module': mod, 'definition': name})
    elif g != c:
        ch.fail('%s|%s|differs' % (mod, name), {'module': mod, 'definition': name, 'generated': g[:400], 'checked_in': c[:400]})
    else:
        ch.ok(case=(mod, name), outcome='equal', sample={'module': mod, 'definition': name, 'ast': g[:160]} if name.endswith('Regex') and len(g) < 300 else None)


def canary():
    a = _definitions("class X:\n    A = f'a{B.C}'\n")[1]
    b = _definitions("class X:\n    A = f'a{B.D}'\n")[1]
    return True if a != b else 'AST comparison cannot fail'
