"""C11 - every resolved date-time value is well formed and agrees with its TIMEX.  An invariant evaluated
on every entity the date-time model emits for (a) every Python-supported Specs input of every culture
under several references, (b) a pool of generated expressions of the C06-C10 families under every
reference day of whole years, (c) non-existent calendar dates in several layouts."""
from datetime import date, datetime, timedelta

from oracles import dt, specs

ID = 'C11'
RULE = ('(a) every Python-supported Specs date-time model input of every culture x {its own reference, 1950-01-01, 1999-12-31 '
        '23:59:59, 2020-02-29 12:00, 2090-12-31}; (b) ~150 English expressions of the C06-C10 families x every day of a '
        'seed-rotated leap year and the year boundaries 1950-2090 as reference; (c) non-existent dates (Feb 30, Feb 29 of '
        'non-leap years, Apr 31, month 13 ...) in 6 layouts and inside ranges. Oracle on every entity: type name == type of '
        'values, strict shapes + strptime validity, start < end for date ranges, definite TIMEX == value (dates, times, '
        'datetimes, ISO weeks, months, years), invalid calendar input -> "not resolved". Non-trivial = a call that produced >= 1 '
        'entity, all well formed; distinct = distinct (culture, query, reference).')
ASSUMPTIONS = ['values carrying a Mod (before/after/since/approx/start/end ...) are exempt from the period == TIMEX comparison',
               'set-type entities are only checked for type-name agreement']
MIN_NONTRIVIAL = 5000
CFG = {}
EXTRA_REFS = [datetime(1950, 1, 1, 0, 0, 0), datetime(1999, 12, 31, 23, 59, 59), datetime(2020, 2, 29, 12, 0, 0),
              datetime(2090, 12, 31, 0, 0, 0)]


def expression_pool():
    ex = ['today', 'tomorrow', 'yesterday', 'now', 'right now', 'tonight', 'this morning', 'tomorrow afternoon']
    for n in (1, 3, 30, 365, 1000):
        ex += ['%d days ago' % n, 'in %d days' % n, '%d weeks from now' % n, 'in %d months' % n, '%d years ago' % n]
    for rel in ('this', 'next', 'last'):
        ex += ['%s %s' % (rel, u) for u in ('week', 'month', 'year', 'weekend', 'monday', 'friday', 'sunday')]
    ex += ['monday', 'sunday', 'nov 7', 'february 29', 'feb 28', 'dec 31', '1/1', 'the 15th', 'march', 'in june', 'last december',
           'this summer', 'next spring', '2016', 'in 2030', 'first week of january', 'the week of september 16th',
           'end of this month', 'beginning of next week', 'early next year', 'later this year', 'the first quarter of 2019']
    ex += ['2016-11-07', '11/7/2016', 'november 7, 2016', 'february 29, 2020', '12/31/1999', '1900-01-01', '2099-12-31']
    ex += ['at 3', '3pm', '15:30', '00:30', '12 am', '12:00 pm', '23:59:59', 'noon', 'midnight', "7 o'clock", 'half past 3']
    ex += ['tomorrow at 3pm', 'next monday at 9:30', 'yesterday at 00:30', 'november 7, 2016 at 15:45', '3 days ago at 8',
           'tonight at 9', 'this friday at noon']
    for u in ('second', 'minute', 'hour', 'day', 'week', 'month', 'year'):
        ex += ['3 %ss' % u, 'for 1 %s' % u, '1000 %ss' % u]
    ex += ['from 2016-01-05 to 2016-02-07', 'between january 5, 2016 and february 7, 2016', 'from 3pm to 5:30pm',
           'between 15:00 and 17:30', 'from 2016-01-05 3pm to 2016-01-08 3:05pm', 'from monday to friday', 'from may to july',
           'from 9am to 5pm tomorrow', 'next week from tuesday to thursday', 'between 2000 and 2010', 'from nov 5 to nov 9',
           'last 3 days', 'next 2 weeks', 'past 6 months', 'the next 5 years', 'within 3 hours', 'before 3pm', 'after 2016-11-07',
           'since last monday', 'until next friday', 'around 3pm', 'every monday', 'every day at 8am', 'each week']
    return ex


_RES = {'en-us': ('english', 'English'), 'es-es': ('spanish', 'Spanish'), 'fr-fr': ('french', 'French'), 'pt-br': ('portuguese', 'Portuguese'),
        'it-it': ('italian', 'Italian'), 'de-de': ('german', 'German'), 'nl-nl': ('dutch', 'Dutch'), 'zh-cn': ('chinese', 'Chinese')}


def duration_pool():
    """Closed duration grammar: number form x every unit word of the culture's own unit table x glue x suffix x prefix."""
    import importlib
    from vmc import env
    env.setup()
    out = []
    for cul in dt.CULTURES:
        mod, cls = _RES[cul]
        res = getattr(importlib.import_module('recognizers_date_time.resources.%s_date_time' % mod), cls + 'DateTime')
        units = sorted(getattr(res, 'UnitMap', {}) or {})
        if cul == 'en-us':
            nums = ['1', '2', '3', '30', '1.5', '2.5', '0.5', 'a', 'an', 'one', 'two', 'three']
            suffixes = ['', ' and a half', ' and a quarter']
            prefixes = ['', 'for ']
        else:
            nums = ['1', '2', '3', '30', '1.5' if cul == 'zh-cn' else '1,5']
            suffixes, prefixes = [''], ['']
        for n in nums:
            for u in units:
                for glue in ((' ', '') if n[0].isdigit() else (' ',)) if cul != 'zh-cn' else ('',):
                    for sfx in suffixes:
                        for pre in prefixes:
                            out.append((cul, pre + n + glue + u + sfx, u))
    return out


def nonexistent():
    out = []
    for (y, m, d) in ((2016, 2, 30), (2019, 2, 29), (2019, 4, 31), (2020, 2, 31), (2016, 6, 31), (2016, 11, 31), (1900, 2, 29),
                      (2100, 2, 29), (2016, 9, 31)):
        name = dt.MONTHS['en-us'][m - 1]
        out += ['%04d-%02d-%02d' % (y, m, d), '%d/%d/%d' % (m, d, y), '%s %d, %d' % (name, d, y), '%d %s %d' % (d, name, y),
                '%s %s' % (name, dt.ordinal_en(d)), '%s %d' % (dt.EN_ABBR[m - 1], d),
                'from %s %d to %s %d' % (name, d - 3, name, d), 'from %s %d %d to %s %d %d' % (name, d, y, name, d + 1, y),
                'between %d/%d/%d and %d/%d/%d' % (m, d - 2, y, m, d, y), '%s %d, %d at 3pm' % (name, d, y)]
    out += ['13/13/2016', '2016-13-01', '2016-00-10', '0/0/2016', 'february 0', '31/6/2016']
    return sorted(set(out))


def configure(tier, seed):
    thorough = tier == 'thorough'
    leap = [2016, 2020, 2000, 2024][seed % 4]
    refs = []
    d = date(leap, 1, 1)
    while d.year == leap:
        refs.append(datetime(d.year, d.month, d.day, (d.toordinal() * 7) % 24, (d.toordinal() * 13) % 60, 0))
        d += timedelta(days=1 if thorough else 3)
    for y in range(1950, 2091, 1 if thorough else 10):
        refs += [datetime(y, 1, 1, 0, 0, 0), datetime(y, 12, 31, 23, 59, 59), datetime(y, 3, 1, 12, 0, 0)]
    CFG.update(tier=tier, seed=seed, refs=refs, pool=expression_pool(), bad=nonexistent(), durations=duration_pool())
    return {'shard_depth': 99, 'progress': True,
            'bounds': {'generated_expressions': len(CFG['pool']), 'references_for_generated': len(refs),
                       'nonexistent_date_inputs': len(CFG['bad']), 'duration_grammar_expressions': len(CFG['durations']), 'extra_references_for_specs': [r.isoformat() for r in EXTRA_REFS]},
            'blocks': ['all'] if thorough else ['every 3rd day of %d' % leap, 'year boundaries every 10th year']}


def worker_init():
    import os
    configure(os.environ['VERIF_TIER'], int(os.environ['VERIF_SEED']))
    CFG['spec_cases'] = [(s['culture'], s['file'], i, spec) for (s, i, spec) in specs.supported_cases('DateTime', 'Model')
                         if s['model'] == 'DateTime' and not s['options'] and s['culture'] in dt.CULTURES + ['es-mx']]


def judge(ch, label, cul, q, ref, src):
    got = dt.run(cul, q, ref)
    for g in got:
        err = dt.wellformed(g)
        if err:
            kind, detail = err
            lab = label if not src.startswith('DateTime/') else 'specs|%s' % src
            ch.fail('%s|%s|%s' % (lab, g[3].split('.')[-1], kind),
                    {'culture': cul, 'query': q, 'reference': ref.isoformat(), 'source': src, 'entity': g, 'detail': detail})
            return
    ch.ok(case=(cul, q, ref), nontrivial=bool(got), outcome='%s|entities=%d' % (label.split('|')[0], min(len(got), 3)),
          sample={'culture': cul, 'query': q, 'reference': ref.isoformat(), 'entities': got} if len(got) == 2 else None)


def body(ch):
    part = ch.pick('part', ('specs', 'generated', 'durations', 'hour-ranges', 'nonexistent', 'two-threads'))
    if part == 'hour-ranges':
        # every pair of bare hours H1 < H2 (no am/pm) as a range on a date: all four am/pm readings the library may add must
        # still be valid clock times
        h1 = ch.pick('h1', range(0, 23))
        ch.shard()
        h2 = ch.pick('h2', range(h1 + 1, 24))
        dexpr = ch.pick('date', ('tomorrow', 'on monday', 'january 5 2019'))
        shape = ch.pick('shape', ('from %d to %d %s', '%s from %d to %d', '%s between %d and %d'))
        q = shape % ((h1, h2, dexpr) if shape.startswith('from') else (dexpr, h1, h2))
        judge(ch, 'hour-ranges|h2-%s' % ('<=12' if h2 <= 12 else '>12'), 'en-us', q, datetime(2016, 11, 7, 12, 0, 0), 'hour-range-grammar')
        return
    if part == 'durations':
        pool = CFG['durations']
        ci = ch.pick_index('chunk', (len(pool) + 99) // 100)
        ch.shard()
        cul, q, unit = ch.pick('expression', pool[ci * 100:(ci + 1) * 100])
        ref = ch.pick('reference', (datetime(2016, 11, 7, 12, 0, 0), EXTRA_REFS[2]))
        judge(ch, 'durations|%s|unit-word:%s' % (cul, unit), cul, q, ref, 'duration-grammar')
        return
    if part == 'two-threads':
        # two callers with expressions of different kinds share the cached model: every schedule with <= 1 preemption at
        # 'coarse' granularity (entry of every extract/parse and of every function of the merging modules); every entity either
        # caller receives must still be well formed and equal to what the caller gets alone
        import os
        from vmc import env, sched
        ref = datetime(2016, 11, 7, 12, 0, 0)
        pair = ch.pick('pair', (('nov 7 2016', 'at 3 pm'), ('for 3 hours', 'from 2016-01-05 to 2016-02-07')))
        alone = {q: dt.run('en-us', q, ref) for q in pair}
        plan, ex = sched.pick_and_run(ch, CFG.setdefault('counts', {}), pair, os.path.join(env.REPO, 'Python', 'libraries'), 'coarse', 1,
                                      [lambda q=pair[0]: dt.run('en-us', q, ref), lambda q=pair[1]: dt.run('en-us', q, ref)], chunk=60)
        for tid, q in enumerate(pair):
            got = ex.results[tid] if ex.errors[tid] is None else None
            if got is None:
                ch.fail('two-threads|exception', {'queries': pair, 'plan': plan, 'error': ex.errors[tid]})
                return
            for g in got:
                err = dt.wellformed(g)
                if err:
                    ch.fail('two-threads|%s' % err[0], {'queries': pair, 'plan': plan, 'thread': tid, 'entity': g, 'detail': err[1]})
                    return
            if got != alone[q]:
                ch.fail('two-threads|differs-from-sequential', {'queries': pair, 'plan': plan, 'thread': tid, 'observed': got, 'alone': alone[q]})
                return
        ch.ok(case=(pair, tuple(map(tuple, plan))), outcome='two-threads', evals=2)
        return
    if part == 'specs':
        cases = CFG['spec_cases']
        ci = ch.pick_index('chunk', (len(cases) + 19) // 20)
        ch.shard()
        cul, fname, idx, spec = ch.pick('case', cases[ci * 20:(ci + 1) * 20])
        own = specs.reference_of(spec, datetime(2016, 11, 7))
        ref = ch.pick('reference', [own] + EXTRA_REFS)
        judge(ch, 'specs|%s' % cul, cul, spec['Input'], ref, '%s#%d' % (fname, idx))
    elif part == 'generated':
        q = ch.pick('expression', CFG['pool'])
        ch.shard()
        ref = ch.pick('reference', CFG['refs'])
        judge(ch, 'generated|%s' % q, 'en-us', q, ref, 'pool')
    else:
        q = ch.pick('input', CFG['bad'])
        ch.shard()
        ref = ch.pick('reference', [datetime(2016, 11, 7, 12, 0, 0)] + EXTRA_REFS)
        pre = ch.pick('carrier', ('', 'i will go on '))
        judge(ch, 'nonexistent', 'en-us', pre + q, ref, 'nonexistent-date')


def canary():
    bad = (0, 9, 'x', 'datetimeV2.date', [{'timex': '2016-02-30', 'type': 'date', 'value': '2016-02-30'}])
    if dt.wellformed(bad) is None:
        return 'oracle accepts 30 February'
    bad2 = (0, 9, 'x', 'datetimeV2.daterange', [{'timex': '2019-W01', 'type': 'daterange', 'start': '2019-12-30', 'end': '2020-01-06'}])  # outside 2019-W01
    if dt.wellformed(bad2) is None:
        return 'oracle accepts a week TIMEX that disagrees with its start'
    ok = (0, 9, 'x', 'datetimeV2.daterange', [{'timex': '2020-W01', 'type': 'daterange', 'start': '2019-12-30', 'end': '2020-01-06'}])
    return True if dt.wellformed(ok) is None else 'oracle rejects a correct week'
