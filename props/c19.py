"""C19 - the Python port agrees with the cross-platform Specs wherever it claims support.
Depth-0 exhaustive run of the whole corpus: every Python-supported case of Specs/** at every level the
repository's own runner distinguishes, through the repository's own comparison functions, plus a strict
offset comparison where the runner does not look at Start/End."""
import importlib
import os
import sys

from vmc import env

ID = 'C19'
RULE = ('every case of Specs/**/*.json not marked NotSupported / NotSupportedByDesign for python, for the 5 recognisers x the levels '
        'Model / Extractor / Parser / MergedParser, executed through the repository\'s own test functions (Python/tests/'
        'test_runner_*.py: same case selection, same assertions); plus, for the Sequence and Choice model cases, whose runner '
        'functions do not compare offsets, a strict comparison of Start/End where the spec gives them. Non-trivial = a case '
        'that expects >= 1 entity and passes; distinct = distinct (test function, case index).')
ASSUMPTIONS = ['case identity = (runner function, index in its parameter list)',
               'the runner modules are imported from /repo/Python/tests with the working directory set to /repo/Python, as the '
               'project\'s own pytest invocation does']
MIN_NONTRIVIAL = 5000
CFG = {}
S = {}
RUNNERS = [('test_runner_number', ['test_number_recognizer']),
           ('test_runner_number_with_unit', ['test_number_with_unit_recognizer']),
           ('test_runner_sequence', ['test_sequence_recognizer']),
           ('test_runner_choice', ['test_choice_recognizer']),
           ('test_runner_datetime', ['test_datetime_extractor', 'test_datetime_parser', 'test_datetime_mergedparser', 'test_datetime_model'])]


def configure(tier, seed):
    return {'shard_depth': 99, 'progress': True, 'bounds': {'runner_functions': sum(len(f) for _, f in RUNNERS)}, 'blocks': ['all']}


def worker_init():
    pyroot = os.path.join(env.REPO, 'Python')
    os.chdir(pyroot)
    tests = os.path.join(pyroot, 'tests')
    if tests not in sys.path:
        sys.path.insert(0, tests)
    funcs = []
    for modname, names in RUNNERS:
        mod = importlib.import_module(modname)
        for n in names:
            f = getattr(mod, n)
            params = None
            for mark in getattr(f, 'pytestmark', []):
                if mark.name == 'parametrize':
                    params = list(mark.args[1])
            inner = f
            funcs.append((modname, n, inner, params or []))
    S['funcs'] = funcs


def unpack(param):
    """(values tuple, skipped?) of a pytest.param"""
    skipped = False
    for m in getattr(param, 'marks', ()):
        if m.name == 'skipif' and m.args and m.args[0]:
            skipped = True
        if m.name == 'skip':
            skipped = True
    return getattr(param, 'values', param), skipped


def strict_offsets(modname, values):
    """Start/End comparison for the runner functions that omit it; None or a message"""
    if modname == 'test_runner_sequence':
        import test_runner_sequence as m
        culture, model, options, context, source, expected = values
        results = m.get_results(culture, model, source)
    elif modname == 'test_runner_choice':
        import test_runner_choice as m
        culture, model, options, context, source, expected = values
        results = m.get_results(culture, model, source)
    else:
        return None
    for actual, exp in zip(results, expected):
        if 'Start' in exp and actual.start != exp['Start']:
            return 'Start %r != %r' % (actual.start, exp['Start'])
        if 'End' in exp and actual.end != exp['End']:
            return 'End %r != %r' % (actual.end, exp['End'])
    return None


def body(ch):
    fi = ch.pick_index('runner_function', len(S['funcs']))
    modname, fname, func, params = S['funcs'][fi]
    ci = ch.pick_index('chunk', (len(params) + 99) // 100)
    ch.shard()
    idx = ch.pick('case', range(ci * 100, min(len(params), (ci + 1) * 100)))
    values, skipped = unpack(params[idx])
    if skipped:
        ch.prune()
    source = values[4] if len(values) > 4 else ''
    expected = values[5] if len(values) > 5 else []
    label = '%s::%s[%d]' % (modname, fname, idx)
    try:
        func(*values)
    except AssertionError as e:
        ch.fail('%s|%s|assertion' % (label, str(source)[:40]), {'case': label, 'culture': values[0], 'model': values[1], 'options': values[2],
                                                               'input': source, 'error': str(e)[:600]})
        return
    except Exception as e:
        ch.fail('%s|%s|exception-%s' % (label, str(source)[:40], type(e).__name__), {'case': label, 'culture': values[0], 'model': values[1],
                                                                                   'input': source, 'error': repr(e)[:600]})
        return
    msg = strict_offsets(modname, values)
    if msg:
        ch.fail('%s|%s|offsets' % (label, str(source)[:40]), {'case': label, 'culture': values[0], 'model': values[1], 'input': source,
                                                             'error': msg})
        return
    ch.ok(case=(fname, idx), nontrivial=bool(expected), outcome=fname,
          sample={'case': label, 'culture': values[0], 'model': values[1], 'input': source, 'expected_entities': len(expected)}
          if idx % 997 == 0 else None)


def canary():
    # the project's comparison must be able to fail: a spec case with a wrong expectation raises AssertionError
    modname, fname, func, params = S['funcs'][0]
    for p in params:
        values, skipped = unpack(p)
        if not skipped and values[5]:
            import copy
            bad = list(copy.deepcopy(values))
            bad[5][0]['Resolution']['value'] = 'definitely-wrong'
            try:
                func(*bad)
            except AssertionError:
                return True
            return 'runner accepted a wrong expectation'
    return 'no usable case for the canary'
