"""C20 - yes/no polarity: every alternative of the culture's TrueRegex/FalseRegex (expanded from the
resource text) x letter case x context, neutral strings from a closed pool, and mixed polarity."""
import itertools
import re

ID = 'C20'
RULE = ('every literal alternative of EnglishChoice.TrueRegex/FalseRegex expanded from the resource source (words, '
        '"not ok" with 1-2 spaces, each emoji as the single code point it denotes, with and without each skin-tone '
        'modifier) x {lower, UPPER, Title} x {alone, punctuation-wrapped, prefixed/suffixed/both by each filler}; all '
        'sequences of <= 3 neutral tokens; every ordered (true, false) pair x 3 separators. Non-trivial = an entity was '
        'expected and found with the right polarity and span; distinct = distinct query strings.')
ASSUMPTIONS = ['an emoji followed by a skin-tone modifier may be reported with or without the modifier in its span',
               'fillers and neutral tokens contain no listed word as a whole token (but deliberately contain them as '
               'substrings: "okay", "yesterday", "say", "note")']
MIN_NONTRIVIAL = 200
CFG = {}
M = {}

FILLERS = ['well', 'i say', 'then', 'please', 'okay', 'yesterday', 'know']
NEUTRAL = ['', ' ', '.', '7', 'yesterday', 'note', 'okay', 'maybe', 'nod']
PUNCT = ['!', '.', ',', '?']


def _expand(rx):
    """(words, emoji code points) denoted by a True/False resource regex."""
    m = re.match(r'\\b\((.*?)\)\\b\|\((.*?)\)', rx)
    if not m:
        raise ValueError('unexpected shape of resource regex: %r' % rx)
    words = []
    for alt in m.group(1).split('|'):
        if '\\s+' in alt:
            words.append(alt.replace('\\s+', ' '))
            words.append(alt.replace('\\s+', '  '))
        else:
            words.append(alt)
    emojis = []
    for alt in m.group(2).split('|'):
        us = re.findall(r'\\u([0-9a-fA-F]{4})', alt)
        rest = re.sub(r'\\u[0-9a-fA-F]{4}', '', alt)
        if len(us) == 2 and 0xD800 <= int(us[0], 16) < 0xDC00:
            cp = 0x10000 + ((int(us[0], 16) - 0xD800) << 10) + (int(us[1], 16) - 0xDC00)
        elif len(us) == 1 and us[0] == '0001' and rest:
            cp = int('1' + rest, 16)          # the \u0001f44c spelling of U+1F44C
        elif len(us) == 1:
            cp = int(us[0], 16)
        else:
            raise ValueError('cannot read emoji alternative %r' % alt)
        if chr(cp) not in emojis:
            emojis.append(chr(cp))
    return words, emojis


def configure(tier, seed):
    CFG['tier'] = tier
    return {'shard_depth': 2, 'bounds': {'fillers': FILLERS, 'neutral_tokens': NEUTRAL, 'punctuation': PUNCT,
                                         'neutral_max_tokens': 3},
            'blocks': ['all']}


def worker_init():
    import os
    configure(os.environ['VERIF_TIER'], int(os.environ['VERIF_SEED']))
    from recognizers_choice import ChoiceRecognizer
    from recognizers_choice.resources.english_choice import EnglishChoice
    from recognizers_text import StringUtility, RegExpUtility
    M['model'] = ChoiceRecognizer('en-us').get_boolean_model()
    tw, te = _expand(EnglishChoice.TrueRegex)
    fw, fe = _expand(EnglishChoice.FalseRegex)
    tones = [chr(c) for c in range(0x1F3FB, 0x1F400)]
    M['true'] = [(w, True, 'word') for w in tw] + [(e, True, 'emoji') for e in te]
    M['false'] = [(w, False, 'word') for w in fw] + [(e, False, 'emoji') for e in fe]
    M['tones'] = tones
    listed = set(tw + fw)
    # literals of the *run-time* pattern that the resource does not list must not answer
    spurious = []
    for rx in (EnglishChoice.TrueRegex, EnglishChoice.FalseRegex):
        rt = StringUtility.remove_unicode_matches(RegExpUtility.get_safe_reg_exp(rx))
        for lit in re.findall(r'[A-Za-z0-9]{2,}', re.sub(r'\\[a-zA-Z]\+?|\\U[0-9a-fA-F]{8}', ' ', rt)):
            if lit.lower() not in listed and lit.lower() not in ('not',) and lit not in spurious:
                spurious.append(lit)
    M['spurious'] = spurious or ['udc4d']


def ents(q):
    return [(e.start, e.end, e.text, e.type_name, e.resolution.get('value') if e.resolution else None,
             e.resolution.get('score') if e.resolution else None) for e in M['model'].parse(q)]


def expect_entity(ch, label, q, spans, polarity_of_span):
    """spans: acceptable (start, end) pairs -> polarity."""
    got = ents(q)
    if len(got) != 1:
        ch.fail('%s|%s' % (label, 'missing' if not got else 'several'), {'query': q, 'observed': got, 'expected_spans': spans})
        return
    s, e, text, tn, val, score = got[0]
    if (s, e) not in spans:
        ch.fail('%s|span' % label, {'query': q, 'observed': got, 'expected_spans': spans})
    elif val is not polarity_of_span[(s, e)]:
        ch.fail('%s|polarity' % label, {'query': q, 'observed': got, 'expected': polarity_of_span[(s, e)]})
    elif text.lower() != q[s:e + 1].lower() or tn != 'boolean':
        ch.fail('%s|text' % label, {'query': q, 'observed': got})
    elif not (isinstance(score, (int, float)) and 0 <= score <= 1):
        ch.fail('%s|score' % label, {'query': q, 'observed': got})
    else:
        ch.ok(case=q, outcome=label + ('|T' if val else '|F'), sample={'query': q, 'entity': got[0]})


def cased(w, case):
    return w if case == 'lower' else w.upper() if case == 'UPPER' else w.title()


def body(ch):
    part = ch.pick('part', ('single', 'neutral', 'mixed', 'spurious', 'two-threads'))
    if part == 'two-threads':
        # two callers share the cached boolean model: every schedule with <= 1 preemption (every library call is a
        # scheduling point) of two different queries; each caller must get what it gets alone
        import os
        from vmc import env, sched
        qs = ['yes', 'Nope, thanks', 'well ok then', 'not ok']
        a = ch.pick('query_a', qs)
        b = ch.pick('query_b', qs)
        if a == b:
            ch.prune()
        alone = {q: ents(q) for q in (a, b)}
        plan, ex = sched.pick_and_run(ch, M.setdefault('counts', {}), (a, b), os.path.join(env.REPO, 'Python', 'libraries'), 'calls', 1,
                                      [lambda q=a: ents(q), lambda q=b: ents(q)], chunk=50)
        for tid, q in enumerate((a, b)):
            got = ex.results[tid] if ex.errors[tid] is None else 'EXC ' + ex.errors[tid]
            if got != alone[q]:
                ch.fail('two-threads|differs-from-sequential', {'queries': [a, b], 'plan': plan, 'thread': tid, 'observed': got, 'alone': alone[q]})
                return
        ch.ok(case=(a, b, tuple(map(tuple, plan))), outcome='two-threads', evals=2)
        return
    if part == 'single':
        w, pol, kind = ch.pick('expression', M['true'] + M['false'])
        if kind == 'word':
            expr = cased(w, ch.pick('case', ('lower', 'UPPER', 'Title')))
            alt_len = [len(expr)]
        else:
            tone = ch.pick('tone', [''] + M['tones'])
            expr = w + tone
            alt_len = [1, len(expr)]
        ctx = ch.pick('context', ['alone'] + ['punct:' + p for p in PUNCT] + ['pre:' + f for f in FILLERS]
                      + ['post:' + f for f in FILLERS] + ['both:' + f for f in FILLERS]
                      + ['ws: |', 'ws:  |', 'ws:\t|', 'ws:| ', 'ws:  |  ', 'ws: |!'])
        k, _, arg = ctx.partition(':')
        if k == 'alone':
            pre, post = '', ''
        elif k == 'punct':
            pre, post = '', arg
        elif k == 'ws':
            pre, post = arg.split('|')
        elif k == 'pre':
            pre, post = arg + ' ', ''
        elif k == 'post':
            pre, post = '', ' ' + arg
        else:
            pre, post = arg + ', ', ' ' + arg + '.'
        q = pre + expr + post
        spans = {(len(pre), len(pre) + n - 1): pol for n in set(alt_len)}
        eid = w.replace('  ', ' ') if kind == 'word' else 'U+%04X' % ord(w)
        expect_entity(ch, 'single|%s|%s' % (kind, eid), q, list(spans), spans)
    elif part == 'neutral':
        n = ch.pick('tokens', (0, 1, 2, 3))
        toks = [ch.pick('tok%d' % i, NEUTRAL) for i in range(n)]
        q = ' '.join(toks)
        got = ents(q)
        if got:
            ch.fail('neutral|answered', {'query': q, 'observed': got})
        else:
            ch.ok(case=q, nontrivial=False, outcome='neutral')
    elif part == 'spurious':
        lit = ch.pick('literal', M['spurious'])
        q = cased(lit, ch.pick('case', ('lower', 'UPPER', 'asis')))
        pre = ch.pick('pre', ('', 'well '))
        got = ents(pre + q)
        if got:
            ch.fail('spurious-literal|answered', {'query': pre + q, 'observed': got})
        else:
            ch.ok(case=pre + q, nontrivial=False, outcome='spurious-none')
    else:
        t, _, tk = ch.pick('true', [x for x in M['true'] if x[2] == 'word'] + [x for x in M['true'] if x[2] == 'emoji'])
        f, _, fk = ch.pick('false', M['false'])
        sep = ch.pick('sep', (' ', ', ', ' or '))
        order = ch.pick('order', ('tf', 'ft'))
        a, b = (t, f) if order == 'tf' else (f, t)
        q = a + sep + b
        sa = (0, len(a) - 1)
        sb = (len(a) + len(sep), len(q) - 1)
        pol = {sa: order == 'tf', sb: order != 'tf'}
        expect_entity(ch, 'mixed|%s' % ('words' if tk == fk == 'word' else 'emoji'), q, [sa, sb], pol)


def canary():
    from vmc.explore import Acc, Ch
    acc = Acc()
    expect_entity(Ch([], acc), 'canary', 'yes', [(0, 2)], {(0, 2): False})
    return True if acc.failures else 'oracle accepted a wrong polarity'
