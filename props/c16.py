"""C16 - tokenizers and StringMatcher: exhaustive small-scope exploration against a naive reference.

Part T: every string over SIGMA up to length L through both tokenizers; invariants of the statement
(text == slice, order, disjointness, coverage of every non-space character exactly once) plus a
reference tokenizer for the exact boundaries.
Part M: every dictionary of 1..2 phrases from a closed phrase set x every query up to length Q x both
tokenizers x three init forms; real StringMatcher.find against a naive token-sequence search.
"""
import itertools

ID = 'C16'
RULE = ('part T: all strings over {a,b,1,$,space,-,CJK} up to the length bound, both tokenizers; part M: all '
        'dictionaries of 1-2 phrases from the closed phrase set x all queries up to the length bound x both '
        'tokenizers x {list, dict with separate ids, dict with one id, dict listing a phrase under two ids}. A case is non-trivial when the tokenizer '
        'emits >= 2 tokens (T) or the reference matcher expects >= 1 occurrence (M); distinct = distinct '
        '(part, tokenizer, form, dictionary, query) tuples, which are distinct leaves by construction.')
ASSUMPTIONS = ['reference tokenizer: maximal runs of non-CJK alphanumerics (unit tokenizer: "$" is a word '
               'character and runs are split at digit/letter and digit/$ seams); every other non-space '
               'character is a token of its own',
               'an occurrence of a phrase = the phrase\'s token sequence equals a contiguous slice of the '
               'query\'s token sequence']
MIN_NONTRIVIAL = 1000

SIGMA_T = ['a', 'b', '1', '$', ' ', '-', '中']
SIGMA_M = ['a', 'b', '1', ' ', '$']
CFG = {}


def _strings(sigma, maxlen):
    out = []
    for n in range(maxlen + 1):
        out.extend(''.join(t) for t in itertools.product(sigma, repeat=n))
    return out


def configure(tier, seed):
    thorough = tier == 'thorough'
    lt = 7 if thorough else 6
    lq = 6 if thorough else 5
    extra_q = ['-', '中'][seed % 2]           # seed-selected extra query symbol (fully enumerated)
    sig_q = SIGMA_M + ([extra_q] if not thorough else ['-', '中'])
    lq_eff = lq if not thorough else 5
    phrases = [s for s in _strings(SIGMA_M, 3) if s and not s[0].isspace() and not s[-1].isspace()]
    if thorough:
        pair_pool = phrases
    else:
        pair_pool = [p for p in phrases if len(p) <= 2] + ['a b', 'a 1', 'a$1', '1 a', '$ 1', 'a a', 'ab1', '1$a']
    dicts = [(p,) for p in phrases] + list(itertools.combinations(pair_pool, 2))
    CFG.update(tier=tier, strings_t=_strings(SIGMA_T, lt), queries=_strings(sig_q, lq_eff), dicts=dicts,
               forms=['list', 'dict_sep', 'dict_same', 'dict_dup'], strategies=['TrieTree'])
    n_t = 2 * len(CFG['strings_t'])
    n_m = 2 * 4 * len(dicts) * len(CFG['queries'])
    # parts W (write monitor) and C (two callers share one freshly initialised matcher, every schedule up to the bound)
    CFG.update(cdicts=[('a',), ('a b',), ('a', 'a b'), ('a$1', '1'), ('ab1', 'b')], cqueries=['a b a', 'b a$1 1', 'ab1 a b'],
               preemptions=2 if thorough else 1)
    n_w = 2 * 4 * len(CFG['cdicts'])
    n_c = 2 * 4 * len(CFG['cdicts']) * len(CFG['cqueries']) ** 2
    return {'shard_depth': 99, 'space_size': n_t + n_m + n_w + n_c, 'progress': 200,
            'bounds': {'tokenizer_alphabet': SIGMA_T, 'tokenizer_max_len': lt, 'matcher_query_alphabet': sig_q,
                       'matcher_query_max_len': lq_eff, 'phrases': len(phrases), 'dictionaries': len(dicts),
                       'pair_pool': len(pair_pool)},
            'blocks': ['query symbol ' + repr(extra_q)] if not thorough else ['all']}


TOK = {}
_memo = {'key': None, 'm': None}


def worker_init():
    import os
    configure(os.environ['VERIF_TIER'], int(os.environ['VERIF_SEED']))
    from recognizers_text.matcher.simple_tokenizer import SimpleTokenizer
    from recognizers_text.matcher.number_with_unit_tokenizer import NumberWithUnitTokenizer
    TOK['simple'] = SimpleTokenizer
    TOK['unit'] = NumberWithUnitTokenizer


# ---- reference model --------------------------------------------------------------------------

def _is_cjk_simple(c):
    u = ord(c)
    return (0x4E00 <= u <= 0x9FBF or 0x3400 <= u <= 0x4DBF or 0x3040 <= u <= 0x30FF or 0xFF66 <= u <= 0xFF9D
            or 0xAC00 <= u <= 0xD7AF or 0x1100 <= u <= 0x11FF or 0x3130 <= u <= 0x318F or 0xFFB0 <= u <= 0xFFDC)


def ref_tokens(s, kind):
    """[(start, text)] by the documented rules; deliberately written as a different algorithm
    (classify characters, then group) from the implementation's single pass."""
    cls = []
    for c in s:
        if c.isspace():
            cls.append('s')
        elif kind == 'unit' and c == '$':
            cls.append('$')
        elif c.isdigit() and not _is_cjk_simple(c):
            cls.append('d')
        elif c.isalpha() and not _is_cjk_simple(c):
            cls.append('l')
        else:
            cls.append('p')
    out = []
    i, n = 0, len(s)
    while i < n:
        k = cls[i]
        if k == 's':
            i += 1
        elif k == 'p':
            out.append((i, s[i]))
            i += 1
        else:
            j = i + 1
            while j < n and cls[j] in 'dl$':
                if kind == 'unit':
                    a, b = cls[j - 1], cls[j]
                    if (a == 'd') != (b == 'd'):      # digit next to letter or '$': seam
                        break
                j += 1
            out.append((i, s[i:j]))
            i = j
    return out


def ref_find(query, phrases_ids, kind):
    qt = ref_tokens(query, kind)
    texts = [t for _, t in qt]
    res = {}
    for ph, pid in phrases_ids:
        pt = [t for _, t in ref_tokens(ph, kind)]
        k = len(pt)
        for i in range(0, len(texts) - k + 1):
            if texts[i:i + k] == pt:
                start = qt[i][0]
                end = qt[i + k - 1][0] + len(qt[i + k - 1][1])
                res.setdefault((start, end - start, query[start:end]), []).append(pid)
    return sorted((a, b, c, tuple(sorted(ids))) for (a, b, c), ids in res.items())


# ---- driver body ------------------------------------------------------------------------------

def check_tokens(s, kind):
    toks = TOK[kind]().tokenize(s)
    got = [(t.start, t.text) for t in toks]
    covered = [0] * len(s)
    last_end = 0
    for t in toks:
        if not (0 <= t.start and t.length >= 1 and t.start + t.length <= len(s)):
            return 'bounds', got
        if t.text != s[t.start:t.start + t.length] or t.end != t.start + t.length:
            return 'text!=slice', got
        if t.start < last_end:
            return 'order/overlap', got
        last_end = t.end
        for k in range(t.start, t.end):
            covered[k] += 1
    for k, c in enumerate(s):
        if (0 if c.isspace() else 1) != covered[k]:
            return 'coverage', got
    if got != ref_tokens(s, kind):
        return 'boundaries', got
    return None, got


def _matcher(kind, form, d):
    from recognizers_text.matcher.string_matcher import StringMatcher
    from recognizers_text.matcher.match_strategy import MatchStrategy
    m = StringMatcher(MatchStrategy.TrieTree, TOK[kind]())
    if form == 'list':
        m.init(list(d))
        pids = [(p, p) for p in d]
    elif form == 'dict_sep':
        m.init({'id%d' % i: [p] for i, p in enumerate(d)})
        pids = [(p, 'id%d' % i) for i, p in enumerate(d)]
    elif form == 'dict_same':
        m.init({'k': list(d)})
        pids = [(p, 'k') for p in d]
    else:
        # the first phrase is listed under two canonical ids
        m.init({'id0': list(d), 'id1': [d[0]]})
        pids = [(p, 'id0') for p in d] + [(d[0], 'id1')]
    return m, pids


def _find(m, q):
    return sorted((r.start, r.length, r.text, tuple(sorted(r.canonical_values))) for r in m.find(q))


def shared_matcher(ch, part, kind):
    """W: find() must not write to the matcher it searches (a matcher lives inside a cached model and is searched by every
    caller).  C: two callers search one freshly initialised matcher; every schedule with <= bound preemptions at the entry of
    every function of the matcher package; each caller must get what the reference expects."""
    import os
    from vmc import env, sched, state
    form = ch.pick('form', CFG['forms'])
    d = ch.pick('dictionary', CFG['cdicts'])
    ch.shard()
    if part == 'find-writes':
        m, pids = _matcher(kind, form, d)
        before = state.fingerprint([('matcher', m)])
        for n, q in enumerate(CFG['cqueries']):
            got = _find(m, q)
            after = state.fingerprint([('matcher', m)])
            diff = state.diff_fingerprints(before, after)
            if diff['n']:
                ch.fail('W|%s|%s|%s' % (kind, form, 'first-find-writes' if n == 0 else 'find-writes'),
                        {'tokenizer': kind, 'form': form, 'dictionary': d, 'query': q, 'state_diff': diff})
                return
            before = after
        ch.ok(nontrivial=True, outcome='W', evals=len(CFG['cqueries']))
        return
    qa = ch.pick('query_a', CFG['cqueries'])
    qb = ch.pick('query_b', CFG['cqueries'])
    lib = os.path.join(env.REPO, 'Python', 'libraries')
    gran = ('dirs', (os.path.join('recognizers_text', 'matcher', ''),))
    holder = {}

    def prepare():
        holder['m'], holder['pids'] = _matcher(kind, form, d)
    bodies = [lambda: _find(holder['m'], qa), lambda: _find(holder['m'], qb)]
    counts = []
    for first in (0, 1):
        prepare()
        counts.append(sched.run_plan(lib, gran, [(first, None), (1 - first, None)], bodies).points[first])
    plans = sched.plans_up_to(CFG['preemptions'], counts)
    prepare()
    exp = [ref_find(qa, holder['pids'], kind), ref_find(qb, holder['pids'], kind)]
    for plan in plans:
        prepare()
        ex = sched.run_plan(lib, gran, plan, bodies)
        ch.tally('schedules')
        ch.tally('context_switches', ex.switches)
        got = [ex.results[i] if ex.errors[i] is None else 'EXC ' + ex.errors[i] for i in (0, 1)]
        if got != exp:
            ch.fail('C|%s|%s|two-callers-one-fresh-matcher' % (kind, form),
                    {'tokenizer': kind, 'form': form, 'dictionary': d, 'queries': [qa, qb], 'plan': plan, 'expected': exp,
                     'observed': got}, evals=len(plans))
            return
    ch.ok(nontrivial=bool(exp[0] or exp[1]), outcome='C', evals=len(plans))


def body(ch):
    part = ch.pick('part', ('tokenize', 'match', 'find-writes', 'two-callers'))
    kind = ch.pick('tokenizer', ('simple', 'unit'))
    if part in ('find-writes', 'two-callers'):
        return shared_matcher(ch, part, kind)
    if part == 'tokenize':
        chunk = ch.pick_index('chunk', (len(CFG['strings_t']) + 4999) // 5000)
        ch.shard()
        s = ch.pick('string', CFG['strings_t'][chunk * 5000:(chunk + 1) * 5000])
        err, got = check_tokens(s, kind)
        if err:
            ch.fail('T|%s|%s' % (kind, err), {'string': s, 'tokenizer': kind, 'observed': got,
                                            'expected': ref_tokens(s, kind)})
        else:
            ch.ok(nontrivial=len(got) >= 2, outcome='T%d' % len(got),
                  sample={'tokenizer': kind, 'string': s, 'tokens': got} if len(got) == 3 else None)
        return
    form = ch.pick('form', CFG['forms'])
    di = ch.pick_index('dictionary', len(CFG['dicts']))
    ch.shard()
    q = ch.pick('query', CFG['queries'])
    d = CFG['dicts'][di]
    key = (kind, form, di)
    if _memo['key'] != key:
        _memo['key'], _memo['m'] = key, _matcher(kind, form, d)
    m, pids = _memo['m']
    exp = ref_find(q, pids, kind)
    got = _find(m, q)
    if got != exp:
        fresh, _ = _matcher(kind, form, d)
        got2 = _find(fresh, q)
        kindk = 'stateful' if got2 == exp else ('miss' if len(got2) < len(exp) else
                                                 'extra' if len(got2) > len(exp) else 'wrong')
        ch.fail('M|%s|%s|%s' % (kind, form, kindk),
                {'tokenizer': kind, 'form': form, 'dictionary': d, 'query': q, 'expected': exp,
                 'observed': got, 'observed_fresh_matcher': got2})
    else:
        ch.ok(nontrivial=bool(exp), outcome='M%d' % len(exp),
              sample={'tokenizer': kind, 'form': form, 'dictionary': d, 'query': q, 'matches': exp}
              if len(exp) == 2 else None)


def canary():
    # a deliberately wrong expectation must be rejected by the same comparison
    err, got = check_tokens('a1 $b', 'unit')
    if err is not None:
        return 'canary precondition: %r' % err
    wrong = ref_tokens('a1 $b', 'simple')
    if got == wrong:
        return 'tokenizers indistinguishable'
    m, pids = _matcher('simple', 'list', ('a b',))
    if _find(m, 'a b a') == ref_find('a b a', [('a', 'a')], 'simple'):
        return 'matcher oracle cannot fail'
    return True
