"""C03 - numeric literals resolve exactly, per culture.  Structured exhaustive enumeration of literal
shapes (integer part x fraction digits x sign/grouping form x carrier) through the number and the
percentage model of every culture, against Decimal arithmetic and a literal table of culture marks."""
import itertools
from decimal import Decimal, localcontext, ROUND_HALF_EVEN

ID = 'C03'
RULE = ('cultures x integer part from {all n below the bound} U {10^k, 10^k +/- 1 : k <= 15} U the full cross product of '
        'per-group digit classes over the five 3-digit groups x fraction digit strings x {plain, grouped, negative, '
        'negative+grouped} x {alone, carrier}; number model, and percentage model on literal + "%". Oracle: one entity '
        'over the literal, Decimal(value) equals the literal to 15 significant digits, value uses the culture decimal mark '
        'and no grouping. Non-trivial = an entity was expected and matched; distinct = distinct (culture, model, query).')
ASSUMPTIONS = ['culture marks: literal table in this driver (cross-checked against recognizers_number.culture at start-up; a '
               'disagreement is reported as a violation)',
               'literals with more than 15 significant digits may differ by one unit in the 15th digit',
               'zh: the culture has no long format, so grouped forms are not enumerated for it']
MIN_NONTRIVIAL = 5000
CFG = {}
M = {}

# culture -> (thousands mark, decimal mark) as the statement means them ("the culture's own marks")
MARKS = {
    'en-us': (',', '.'), 'es-es': ('.', ','), 'es-mx': (',', '.'), 'fr-fr': ('.', ','), 'pt-br': ('.', ','),
    'de-de': ('.', ','), 'it-it': ('.', ','), 'nl-nl': ('.', ','), 'zh-cn': (None, '.'), 'ja-jp': (',', '.'),
}
CARRIER = {
    'en-us': ('it costs ', ' today'), 'es-es': ('tiene ', ' cosas'), 'es-mx': ('tiene ', ' cosas'),
    'fr-fr': ('il y a ', ' choses'), 'pt-br': ('tem ', ' coisas'), 'de-de': ('es gibt ', ' dinge'),
    'it-it': ('ci sono ', ' cose'), 'nl-nl': ('er zijn ', ' dingen'), 'zh-cn': ('我有 ', ' 个'), 'ja-jp': ('私は ', ' です'),
}
FRACS = ['', '5', '05', '25', '125', '001', '999', '5000', '123456']
FRACS_GROUPS = ['', '5', '125']
GROUP_CLASSES_FULL = [0, 1, 9, 10, 11, 19, 20, 21, 99, 100, 101, 110, 111, 999]


def int_parts(tier, seed):
    small = range(0, 10000 if tier == 'thorough' else 1000)
    pows = []
    for k in range(1, 16):
        pows += [10 ** k - 1, 10 ** k, 10 ** k + 1]
    pows = [p for p in pows if p < 10 ** 15]
    if tier == 'thorough':
        classes = [0, 1, 9, 10, 21, 100, 101, 999]      # 8^5 = 32,768 group combinations (the full 14^5 x all forms is 10^8+ leaves)
    else:
        # seed-selected block of digit classes, fully enumerated (6^5 = 7776 group combinations)
        extra = [9, 11, 19, 21, 101, 110, 20, 111, 10, 100][seed % 10]
        classes = [0, 1, 99, 999, extra]
    groups = []
    for t in itertools.product(classes, repeat=5):
        n = 0
        for g in t:
            n = n * 1000 + g
        groups.append(n)
    small = sorted(set(small) | set(pows))
    groups = sorted(set(groups) - set(small))
    return small, groups, classes


def configure(tier, seed):
    small, groups, classes = int_parts(tier, seed)
    ints = small + groups
    CFG.update(tier=tier, small=small, groups=groups, chunk=250)
    return {'shard_depth': 99, 'progress': True,
            'bounds': {'cultures': list(MARKS), 'integer_parts': len(ints), 'max_integer': max(ints), 'fractions': FRACS,
                       'group_digit_classes': classes},
            'blocks': ['all'] if tier == 'thorough' else ['digit classes %r' % classes]}


def worker_init():
    import os
    configure(os.environ['VERIF_TIER'], int(os.environ['VERIF_SEED']))
    from recognizers_number import NumberRecognizer
    from recognizers_number.culture import SUPPORTED_CULTURES
    M['marks_impl'] = {c: ((v.thousands_mark, v.decimals_mark) if v else (None, '.')) for c, v in SUPPORTED_CULTURES.items()}
    import importlib
    import re as _re
    resmod = {'en-us': 'english', 'es-es': 'spanish', 'es-mx': 'spanish', 'fr-fr': 'french', 'pt-br': 'portuguese',
              'de-de': 'german', 'it-it': 'italian', 'nl-nl': 'dutch', 'zh-cn': 'chinese', 'ja-jp': 'japanese'}
    for c in MARKS:
        r = NumberRecognizer(c)
        M[(c, 'number')] = r.get_number_model(c, False)
        M[(c, 'percentage')] = r.get_percentage_model(c, False)
        # extra carriers derived mechanically from the culture's own ambiguity-filter vocabulary: every literal
        # word of the filter *values* that is not itself a number, placed directly before / after the literal
        mod = importlib.import_module('recognizers_number.resources.%s_numeric' % resmod[c])
        cls = [v for k, v in vars(mod).items() if k.endswith('Numeric') and isinstance(v, type)][0]
        words = []
        for val in getattr(cls, 'AmbiguityFiltersDict', {}).values():
            for w in _re.findall(r'[^\W\d_]+', _re.sub(r'\\.', ' ', val)):
                if len(w) >= 2 and w not in words and not M[(c, 'number')].parse(w):
                    words.append(w)
        glue = '' if c in ('zh-cn', 'ja-jp') else ' '
        keys = [_re.compile(k) for k in getattr(cls, 'AmbiguityFiltersDict', {})]
        # a numeral character glued *after* the digits is part of a different number by design: not a carrier
        M[('amb', c)] = [(w + glue, '') for w in words] + \
                        [('', glue + w) for w in words if glue or not any(k.search(w[0]) for k in keys)]


def group3(digits, mark):
    out = []
    while len(digits) > 3:
        out.insert(0, digits[-3:])
        digits = digits[:-3]
    out.insert(0, digits)
    return mark.join(out)


def expected_decimal(n, frac, neg):
    d = Decimal(str(n) + ('.' + frac if frac else ''))
    if neg:
        d = -d
    with localcontext() as ctx:
        ctx.prec = 15
        ctx.rounding = ROUND_HALF_EVEN
        r = +d
    digits = len(str(n).lstrip('0')) + len(frac) if n else len(frac.lstrip('0'))
    return d, r, digits


def check_value(val, tm, dm, d, r, sig_digits, suffix):
    """None if val denotes the literal, else a failure kind."""
    if not isinstance(val, str):
        return 'value-not-a-string'
    if suffix:
        if not val.endswith(suffix):
            return 'percent-sign-missing'
        val = val[:-len(suffix)]
    body = val[1:] if val.startswith('-') else val
    mant, _e, expo = body.partition('E')
    ip, sep, fp = mant.partition(dm)
    if (not ip.isdigit() or (sep and fp and not fp.isdigit()) or (tm and tm != dm and tm in body)
            or (_e and not expo.lstrip('+-').isdigit())):
        return 'value-format'
    try:
        got = Decimal(val.replace(dm, '.'))
    except ArithmeticError:
        return 'value-format'
    if got == r or got == d:
        return None
    if sig_digits > 15:
        ulp = Decimal(1).scaleb(r.adjusted() - 14)
        if abs(got - d) <= ulp:
            return None
    return 'value'


def body(ch):
    cul = ch.pick('culture', list(MARKS))
    if M['marks_impl'].get(cul) != MARKS[cul]:
        ch.fail('%s|culture-marks-table' % cul, {'culture': cul, 'implementation': M['marks_impl'].get(cul), 'expected': MARKS[cul]})
        return
    tm, dm = MARKS[cul]
    model = ch.pick('model', ('number', 'percentage'))
    form = ch.pick('form', ('plain', 'grouped', 'negative', 'negative+grouped') if tm else ('plain', 'negative'))
    thorough = CFG['tier'] == 'thorough'
    pool = ch.pick('ints', ('small', 'groups') if (model == 'number' or thorough) else ('small',))
    ints = CFG[pool]
    nchunks = (len(ints) + CFG['chunk'] - 1) // CFG['chunk']
    ci = ch.pick_index('chunk', nchunks)
    ch.shard()
    n = ch.pick('int', ints[ci * CFG['chunk']:(ci + 1) * CFG['chunk']])
    frac = ch.pick('frac', FRACS if pool == 'small' else FRACS_GROUPS)
    carriers = [('', ''), CARRIER[cul]]
    if pool == 'small' and frac in ('', '5'):
        carriers = carriers + M[('amb', cul)]
    pre, post = ch.pick('carrier', carriers)
    digits = str(n)
    if 'grouped' in form:
        if n < 1000:
            ch.prune()          # nothing to group: identical to the plain form
        digits = group3(digits, tm)
    neg = form.startswith('negative')
    lit = ('-' if neg else '') + digits + (dm + frac if frac else '')
    suffix = '%' if model == 'percentage' else ''
    q = pre + lit + suffix + post
    d, r, sig = expected_decimal(n, frac, neg)
    # a sliver of the space is parsed on a fresh thread: the value must not depend on the calling thread
    on_thread = ch.pick('thread', ('caller', 'fresh')) if (pool == 'small' and n < 12 and frac in ('5', '125') and not pre) else 'caller'
    if on_thread == 'fresh':
        import threading
        box = {}
        t = threading.Thread(target=lambda: box.setdefault('r', M[(cul, model)].parse(q)))
        t.start()
        t.join()
        res = box.get('r') or []
    else:
        res = M[(cul, model)].parse(q)
    got = [(e.start, e.end, e.text, e.type_name, (e.resolution or {}).get('value')) for e in res]
    cls = '%s|%s|%s%s' % (cul, model, form, '+decimal' if frac else '')
    if on_thread == 'fresh':
        # attribute a failure to the thread only when the same call is right on the calling thread
        same = M[(cul, model)].parse(q)
        if [(e.start, e.end, e.text, (e.resolution or {}).get('value')) for e in same] != \
                [(e.start, e.end, e.text, (e.resolution or {}).get('value')) for e in res]:
            cls += '|differs-on-a-fresh-thread'
    if (pre, post) in M[('amb', cul)]:
        # attribute the failure to the neighbouring word only if the same literal is handled correctly alone
        alone = M[(cul, model)].parse(lit + suffix)
        if (len(alone) == 1 and (alone[0].start, alone[0].end) == (0, len(lit + suffix) - 1) and len(got) == 1 and
                check_value((alone[0].resolution or {}).get('value'), tm, dm, d, r, sig, suffix) is None) or \
                (len(alone) == 1 and len(got) != 1 and (alone[0].start, alone[0].end) == (0, len(lit + suffix) - 1)):
            cls += '|next-to:' + (pre + post).strip()
    if len(got) != 1:
        ch.fail('%s|%s' % (cls, 'missing' if not got else 'split'), {'culture': cul, 'query': q, 'literal': lit, 'observed': got})
        return
    s, e, text, tn, val = got[0]
    if (s, e) != (len(pre), len(pre) + len(lit + suffix) - 1):
        ch.fail('%s|span' % cls, {'culture': cul, 'query': q, 'literal': lit, 'observed': got})
        return
    err = check_value(val, tm, dm, d, r, sig, suffix)
    if err:
        ch.fail('%s|%s' % (cls, err), {'culture': cul, 'query': q, 'literal': lit, 'observed': got, 'expected': str(r)})
        return
    ch.ok(case=(cul, model, q), outcome=cls, sample={'culture': cul, 'query': q, 'entity': got[0]} if frac and 'grouped' in form else None)


def canary():
    d, r, sig = expected_decimal(1234, '5', False)
    if check_value('1234.5', ',', '.', d, r, sig, '') is not None:
        return 'oracle rejects the right value'
    if check_value('1234.6', ',', '.', d, r, sig, '') is None or check_value('1,234.5', ',', '.', d, r, sig, '') is None:
        return 'oracle accepts a wrong value / grouped value'
    return True
