"""Shared exploration of C01 (spans point at the recognised text) and C12 (entities of one call never
overlap): every registered (model, culture) pair is run on (i) every Python-supported Specs input of
its culture, (ii) every sequence of <= k tokens over a closed per-culture pool (spec-derived words,
numerals, punctuation, full-width and CJK forms, case-expanding code points) joined by " " or "",
(iii) pairs / triples of spec-derived entity expressions with separators.  The two drivers differ only
in the oracle they apply to each model call."""
import collections
import sys
from datetime import datetime

from oracles import registry, specs

CFG = {}
S = {}

FULLWIDTH = {'０': '0', '１': '1', '２': '2', '３': '3', '４': '4', '５': '5', '６': '6', '７': '7', '８': '8', '９': '9', '：': ':',
             '－': '-', '，': ',', '／': '/', 'Ｇ': 'G', 'Ｍ': 'M', 'Ｔ': 'T', 'Ｋ': 'K', 'ｋ': 'k', '．': '.', '（': '(', '）': ')',
             '％': '%', '、': ','}
SEPS = [' ', ' and ', ', ', '-', '']
FIXED_EN = ['3', '12', '2.5', '1,000', 'three', 'twenty', 'hundred', 'first', 'half', 'and', 'a', 'of', 'at', 'on', 'from', 'to',
            'dollars', 'cents', '$', '%', 'kg', 'degrees', 'years old', 'monday', 'nov', '7th', '2016', 'tomorrow', 'next', 'week',
            'am', 'pm', '3:30', 'days', 'ago', 'yes', 'no', '#tag', '@me', '1.2.3.4', 'a@b.com', 'x.com']


# closed pool of English entity expressions, one or two per entity family, including the forms in which one entity is
# written inside another (a dotted quad inside an IPv6 address, a number inside an amount)
# closed pool of English date/time expressions, one per kind (part of day, month-day, clock time, relative day, period, year,
# duration, weekday): appended to / put in front of every spec input in part 'spec-input-extended'
EN_EXTENSIONS = ['this morning', 'tonight', 'may 6', '3pm', 'tomorrow', 'next week', '2016', '3 days', 'friday', '30', '$5']
# the merged date-time extractor's "number ending" rule (<time> <meeting word> <to> N + end / punctuation gives N as a new
# time): per culture whose resource defines the rule - (clock times, meeting words named by the rule, linking word, N, tails)
NUMBER_ENDING = {
    'en-us': (['3pm', '15:00'], ['meeting', 'appointment', 'conference', 'call', 'skype call'], ' to ', ['7', 'eight', '11'],
              ['this morning', 'tonight', 'may 6', 'tomorrow', '3 days', '2016']),
    'de-de': (['15:00', '3 uhr'], ['meeting', 'termin', 'call'], ' to ', ['7', 'acht'], ['heute abend', 'morgen', '6. mai']),
    'nl-nl': (['15:00', '3 uur'], ['vergadering', 'afspraak'], ' naar ', ['7', 'acht'], ['vanavond', 'morgen', '6 mei']),
    'it-it': (['15:00', 'le 3'], ['riunione', 'appuntamento', 'chiamata'], ' alle ', ['7', 'otto'], ['stasera', 'domani', '6 maggio']),
}
FIXED_EN_ENTITIES = ['2.5 dollars', '50 yen', '30', 'three', '3 kg', '20%', 'nov 7', '3pm', '2012', 'friday', '3 days', '1.2.3.4',
                     '::ffff:192.168.1.1', 'a@b.com', 'x.com', 'yes']


def norm(s):
    """independent re-implementation of the documented, length-preserving normalisation"""
    out = []
    for c in s:
        c = FULLWIDTH.get(c, c)
        l = c.lower()
        out.append(l if len(l) == 1 else c)
    return ''.join(out)


def case_expanding_code_points():
    return [chr(i) for i in range(sys.maxunicode + 1) if not (0xD800 <= i <= 0xDFFF) and len(chr(i).lower()) != 1]


def normaliser_alphabet():
    """Exhaustive over all 1.1M code points: what the library's own query normalisation does to each single code point
    (both case modes).  Returns (code points it rewrites to something that is not their plain lower-case, code points
    whose image does not have length 1).  The first list joins the token pool - the closed alphabet the normaliser
    distinguishes is discovered from the code, not guessed; the second list must be empty (C01)."""
    from recognizers_text.utilities import QueryProcessor
    touched, bad = [], []
    for i in range(sys.maxunicode + 1):
        if 0xD800 <= i <= 0xDFFF:
            continue
        c = chr(i)
        for cs in (False, True):
            out = QueryProcessor.preprocess(c, cs)
            if len(out) != 1:
                bad.append((c, cs, out))
            elif out != c and out != c.lower() and c not in touched:
                touched.append(c)
    return touched, bad


def configure(tier, seed):
    CFG.update(tier=tier, seed=seed, k3_pool=10 if tier == 'quick' else 24, pool_size=16 if tier == 'quick' else 40,
               n_entities=14 if tier == 'quick' else 24, n_triple=6 if tier == 'quick' else 10,
               seps=SEPS[:3] if tier == 'quick' else SEPS)
    return {'shard_depth': 99, 'progress': True,
            'bounds': {'token_pool_per_culture': CFG['pool_size'], 'k': '2 (all pool) + 3 (first %d tokens)' % CFG['k3_pool'],
                       'entity_expressions_per_culture': CFG['n_entities'], 'separators': CFG['seps']},
            'blocks': ['all']}


def worker_init():
    import os
    configure(os.environ['VERIF_TIER'], int(os.environ['VERIF_SEED']))
    reg = registry.registered()
    S['models'] = collections.defaultdict(list)
    for rec, mt, cul in reg:
        S['models'][cul].append((rec, mt))
    S['cultures'] = sorted(S['models'])
    inputs = collections.defaultdict(dict)
    ent_texts = collections.defaultdict(collections.Counter)
    mods = collections.defaultdict(collections.Counter)
    for s, i, spec in specs.supported_cases(entity='Model'):
        cul = s['culture']
        if cul not in S['models']:
            continue
        ref = specs.reference_of(spec, registry.REF)
        inputs[cul].setdefault(spec['Input'], (ref, s['recognizer']))
        for r in spec.get('Results') or []:
            vals = ((r.get('Resolution') or {}).get('values') or []) if isinstance(r.get('Resolution'), dict) else []
            kinds = {v.get('Mod') for v in vals if isinstance(v, dict) and v.get('Mod')}
            if kinds and isinstance(r.get('Text'), str):
                words = r['Text'].lower().split()
                if len(words) >= 2 and words[0].isalpha():
                    for kind in kinds:
                        mods[cul][(kind, words[0])] += 1
            t = r.get('Text')
            if isinstance(t, str) and 2 <= len(t) <= 24:
                ent_texts[cul][t.lower()] += 1
    S['inputs'] = {c: sorted(v.items()) for c, v in inputs.items()}
    touched, bad = normaliser_alphabet()
    S['normaliser_bad'] = bad
    S['normaliser_touched'] = touched
    extra = [c for c in touched if c not in FULLWIDTH]          # rewritten code points this driver's table does not know
    specials = ['１２', '３．５', '％', '，', '（', 'Ｋ'] + case_expanding_code_points() + [c + '5' for c in extra[:8]] + ['ß', 'ẞ', 'é', '-', ',', '.', '/', ':']
    S['specials'] = specials
    S['pool'], S['entities'] = {}, {}
    S['unit_chains'] = {}
    for cul in S['cultures']:
        if ('NumberWithUnit', 'CurrencyModel') not in S['models'][cul]:
            continue
        m = registry.get_model('NumberWithUnit', 'CurrencyModel', cul)
        pre, suf = set(), []
        for item in m.extractor_parser:
            cfg = item.extractor.config
            for sp in (getattr(cfg, 'prefix_list', None) or {}).values():
                pre.update(x for x in sp.split('|') if x.strip())
            for sp in (getattr(cfg, 'suffix_list', None) or {}).values():
                suf.extend(x for x in sp.split('|') if x.strip())
        both = sorted({x for x in suf if x in pre}, key=lambda x: (len(x), x))
        amb = both[:3] + [x for x in both if len(x) == 3][:3] + both[-2:]
        amb = list(dict.fromkeys(amb))
        tails = [x for x in dict.fromkeys(suf) if x.isalpha() and x not in pre][:3]
        S['unit_chains'][cul] = (amb, tails)
    for cul in S['cultures']:
        toks = collections.Counter()
        for t, n in ent_texts[cul].items():
            parts = t.split() if cul not in ('zh-cn', 'ja-jp') else list(t)
            for p in parts:
                toks[p] += n
        top = [t for t, _ in sorted(toks.items(), key=lambda kv: (-kv[1], kv[0]))][:CFG['pool_size']]
        if cul == 'en-us':
            top = FIXED_EN + [t for t in top if t not in FIXED_EN][:8]
        S['pool'][cul] = top + [x for x in specials if x not in top]
        ents = [t for t, _ in sorted(ent_texts[cul].items(), key=lambda kv: (-kv[1], len(kv[0]), kv[0]))][:CFG['n_entities']]
        if cul == 'en-us':
            ents = FIXED_EN_ENTITIES + [e for e in ents if e not in FIXED_EN_ENTITIES]
        S['entities'][cul] = ents
        # the two most frequent leading words for every Mod kind (before / after / since / until / approx / start / end ...)
        per_kind = collections.defaultdict(list)
        for (kind, w), n in sorted(mods[cul].items(), key=lambda kv: (-kv[1], kv[0])):
            if len(per_kind[kind]) < 2 and not any(w in v for v in per_kind.values()):
                per_kind[kind].append(w)
        S.setdefault('mods', {})[cul] = [w for kind in sorted(per_kind) for w in per_kind[kind]]
        dts = [t for t, _ in sorted(ent_texts[cul].items(), key=lambda kv: (-kv[1], len(kv[0]), kv[0]))]
        S.setdefault('dt_entities', {})[cul] = [t for t in dts if any(ch.isdigit() for ch in t)][:6]


def calls(cul, q, ref):
    """run q through every registered model of the culture; yields (rec, model type, entities)"""
    only = S.pop('only', None)
    for rec, mt in S['models'][cul]:
        if only and rec != only:
            continue
        yield rec, mt, registry.parse(rec, mt, cul, q, ref)


def build(ch):
    """-> (source label, culture, query, reference)"""
    S.pop('only', None)
    part = ch.pick('part', ('specs', 'spec-input-extended', 'tokens-k2', 'tokens-k3', 'entity-pairs', 'entity-triples', 'modifier-stacks',
                            'unit-chains', 'number-ending', 'two-threads', 'shared-state-writes', 'normaliser'))
    if part in ('two-threads', 'shared-state-writes'):
        return part, None, None, None
    if part == 'normaliser':
        return part, None, None, None
    cul = ch.pick('culture', S['cultures'])
    if part == 'specs':
        items = S['inputs'].get(cul, [])
        ci = ch.pick_index('chunk', (len(items) + 24) // 25)
        ch.shard()
        q, (ref, own) = ch.pick('input', items[ci * 25:(ci + 1) * 25])
        # quick tier: a seed-rotated third of the inputs meets every model of the culture, the others the models of the
        # recogniser they were written for (thorough: every input x every model)
        if CFG['tier'] == 'quick' and (sum(map(ord, q)) + CFG['seed']) % 3 != 0:
            S['only'] = own
        return part, cul, q, ref
    if part == 'number-ending':
        if cul not in NUMBER_ENDING:
            ch.prune()
        times, words, link, ns, tails = NUMBER_ENDING[cul]
        t = ch.pick('time', times)
        w = ch.pick('meeting_word', words)
        ch.shard()
        n = ch.pick('new_time', ns)
        tail = ch.pick('tail', ['', '.', ',', '!', '?', '.,'] + [', ' + x for x in tails] + [' ' + x for x in tails])
        lead = ch.pick('lead', ('', 'ok '))
        S['only'] = 'DateTime'
        return part, cul, '%s%s %s%s%s%s' % (lead, t, w, link, n, tail), registry.REF
    if part == 'spec-input-extended':
        # every spec input (a sentence that is known to exercise some rule of its recogniser) continued by / preceded by one
        # entity expression of a closed per-culture pool: the rule's entity then has a neighbour it may wrongly share text with
        items = S['inputs'].get(cul, [])
        exts = EN_EXTENSIONS if cul == 'en-us' else list(dict.fromkeys((S['dt_entities'].get(cul) or [])[:4] + S['entities'][cul][:4]))
        if cul != 'en-us':
            exts = exts[:2] + exts[4:5]              # two date-time expressions and one other entity (same in both tiers, no seed rotation)
        if not items or not exts:
            ch.prune()
        ci = ch.pick_index('chunk', (len(items) + 24) // 25)
        ch.shard()
        q, (ref, own) = ch.pick('input', items[ci * 25:(ci + 1) * 25])
        ext = ch.pick('extension', exts)
        shape = ch.pick('shape', ('input, ext', 'input ext', 'ext input'))
        core = q.rstrip(' .!?。？！')
        q2 = {'input, ext': core + ', ' + ext, 'input ext': core + ' ' + ext, 'ext input': ext + ' ' + q}[shape]
        S['only'] = own
        return part, cul, q2, ref
    if part in ('tokens-k2', 'tokens-k3'):
        pool = S['pool'][cul] if part == 'tokens-k2' else (S['pool'][cul][:CFG['k3_pool'] - 4] + S['specials'][:2] + S['specials'][6:8])
        a = ch.pick('t1', pool)
        ch.shard()
        toks = [a, ch.pick('t2', pool)]
        if part == 'tokens-k3':
            toks.append(ch.pick('t3', pool))
        joiner = ch.pick('joiner', (' ', ''))
        return part, cul, joiner.join(toks), registry.REF
    if part == 'unit-chains':
        # amounts written back to back, built from the run-time currency tables: a unit spelling that the tables list both
        # as prefix and as suffix ("$", "us$": it can belong to the number before or after it), then a second amount
        amb, tails = S['unit_chains'].get(cul, ([], []))
        if not amb:
            ch.prune()
        u1 = ch.pick('ambifix_unit', amb)
        ch.shard()
        shape = ch.pick('shape', ('N u M t', 'N u M', 'u N u M', 'N u, M t', 'N t M u'))
        t = ch.pick('tail_unit', tails)
        n, m = ch.pick('amounts', (('15', '50'), ('3', '2.5')))
        q = {'N u M t': '%s %s %s %s' % (n, u1, m, t), 'N u M': '%s %s %s' % (n, u1, m), 'u N u M': '%s %s %s %s' % (u1, n, u1, m),
             'N u, M t': '%s %s, %s %s' % (n, u1, m, t), 'N t M u': '%s %s %s %s' % (n, t, m, u1)}[shape]
        return part, cul, q, registry.REF
    if part == 'modifier-stacks':
        # one or two modifier words (the first words of spec entities that resolve with a Mod: before/after/since/around ...)
        # stacked in front of an entity expression, alone or after another entity
        ms, es = S['mods'].get(cul) or [], S['dt_entities'].get(cul) or []
        if not ms or not es:
            ch.prune()
        m1 = ch.pick('m1', ms)
        ch.shard()
        m2 = ch.pick('m2', [None] + ms)
        e = ch.pick('entity', es[:4])
        lead = ch.pick('lead', (None, es[0]))
        q = m1 + ' ' + (m2 + ' ' if m2 else '') + e
        if lead:
            q = lead + ', ' + q
        return part, cul, q, registry.REF
    ents = S['entities'][cul]
    if part == 'entity-pairs':
        a = ch.pick('e1', ents)
        ch.shard()
        b = ch.pick('e2', ents)
        sep = ch.pick('sep', CFG['seps'])
        return part, cul, a + sep + b, registry.REF
    ents = ents[:CFG['n_triple']] if cul != 'en-us' else ents[:len(FIXED_EN_ENTITIES) - 4]
    a = ch.pick('e1', ents)
    ch.shard()
    b = ch.pick('e2', ents)
    c = ch.pick('e3', ents)
    sep = ch.pick('sep', (' ', ', '))
    return part, cul, a + sep + b + sep + c, registry.REF


def span_error(q, e):
    """C01 oracle on one entity; None or a failure kind"""
    s, en, text = getattr(e, 'start', None), getattr(e, 'end', None), getattr(e, 'text', None)
    if not isinstance(s, int) or not isinstance(en, int) or not isinstance(text, str):
        return 'malformed-entity'
    if not (0 <= s <= en < len(q)):
        return 'offsets-out-of-range'
    if norm(q[s:en + 1]).strip() != norm(text).strip():
        return 'text-differs-from-slice'
    return None


def overlap_error(ents):
    """C12 oracle on the entities of one call"""
    spans = sorted((e.start, e.end) for e in ents if isinstance(getattr(e, 'start', None), int) and isinstance(getattr(e, 'end', None), int))
    for (s1, e1), (s2, e2) in zip(spans, spans[1:]):
        if s2 <= e1:
            return 'overlap', (max(s1, s2, 0), min(e1, e2))
    return None


TWO_THREAD_DRIVERS = [
    ('Number', 'PercentModel', 'calls', 'under 75 percent of cases', 'about 25 percent today'),
    ('Number', 'NumberModel', 'calls', 'twenty one and 3,000', 'a 1.5 or two'),
    ('NumberWithUnit', 'DimensionModel', 'coarse', 'it is 5 km away', 'add 3 kg more'),
    ('Sequence', 'IpAddressModel', 'calls', 'ping 1.2.3.4 now', 'use ::1 here'),
    ('DateTime', 'DateTimeModel', 'coarse', 'see you nov 7 at 3pm', 'for 3 days from monday'),
]


def two_threads(ch):
    """Two callers with different queries of the same shape share one cached model: every schedule with <= 1 preemption.
    Returns (driver, queries, plan, per-thread entity lists or error strings, per-query sequential entity lists)."""
    import os
    from vmc import env, sched
    rec, mt, gran, qa, qb = ch.pick('driver', TWO_THREAD_DRIVERS)
    alone = {q: registry.parse(rec, mt, 'en-us', q, registry.REF) for q in (qa, qb)}
    plan, ex = sched.pick_and_run(ch, S.setdefault('counts', {}), (mt, qa), os.path.join(env.REPO, 'Python', 'libraries'), gran, 1,
                                  [lambda q=qa: registry.parse(rec, mt, 'en-us', q, registry.REF),
                                   lambda q=qb: registry.parse(rec, mt, 'en-us', q, registry.REF)], chunk=60)
    got = [ex.results[i] if ex.errors[i] is None else 'EXC ' + ex.errors[i] for i in (0, 1)]
    return (rec, mt), (qa, qb), plan, got, alone


def shared_state_writes(ch):
    """Premise under which a verdict about sequential calls also speaks for concurrent callers: no model call writes to the
    process-wide cached model.  For every registered (model, culture): build it (cold cache, empty query), then answer up to
    6 (date-time; 25 for the other recognisers) inputs of its own spec file; the structural fingerprint of the cached state must not change - neither at first use
    nor later.  Returns None or (key, record)."""
    from vmc import state
    keys = registry.registered()
    rec, mt, cul = ch.pick('model', keys)
    ch.shard()
    want_model = mt[:-5] if mt.endswith('Model') else mt
    inputs = [spec['Input'] for s, i, spec in specs.supported_cases(recognizer=rec, entity='Model')
              if s['culture'] == cul and s['model'] == want_model and not s['options'] and spec.get('Results')][:6 if rec == 'DateTime' else 25]
    if not inputs:
        inputs = ['3 km and 25 %, nov 7 at 3pm, 1.2.3.4 yes']
    state.reset_cache()
    registry._RECS.clear()
    registry.parse(rec, mt, cul, '', registry.REF)
    before = state.fingerprint(state.cache_roots())
    for n, q in enumerate(inputs):
        registry.parse(rec, mt, cul, q, registry.REF)
        after = state.fingerprint(state.cache_roots())
        d = state.diff_fingerprints(before, after)
        if d['n']:
            registry._RECS.clear()
            state.reset_cache()
            return ('shared-state-written|%s|%s|%s' % (cul, mt, 'first-use' if n == 0 else 'warm'),
                    {'culture': cul, 'model': mt, 'query': q, 'state_diff': d})
        before = after
    registry._RECS.clear()
    state.reset_cache()
    return None
