"""C17 - culture routing and model caching never serve the wrong model.
Explicit-state exploration of the real model factory: every request of a large alphabet from the cold
state, and every request *sequence* up to a depth over a reduced alphabet (no state merging, so hidden
per-recogniser state is exercised too), each checked against a reference routing/caching model executed
in lock-step; the real cache's key set must equal the reference model's state after every transition."""
import itertools

from vmc import state

ID = 'C17'
RULE = ('depth 1: every (recogniser, model getter, culture string, fallback flag, recogniser target culture, eager flag, options) '
        'request from the cold cache; depth 2 (thorough 3): every sequence of requests over a reduced alphabet (6 model types x 12 '
        'culture strings x 2 fallback flags, on long-lived recogniser objects, one per recogniser class). Reference model: routing '
        'written from the statement + the set of registered (type, culture) pairs + a dict cache. Checked on every transition: '
        'which registered constructor built the returned model (or ValueError), identity of repeated answers for one key, '
        'distinctness across keys, and real cache key set == model state. Non-trivial = a transition that returned a model; '
        'distinct = distinct (history, request).')
ASSUMPTIONS = ['registered constructors are wrapped on the harness side so that each construction is tagged with its (type, culture); '
               'the wrapper is installed through the recogniser\'s public model_factories dict',
               'eager initialisation is reproduced by calling initialize_models() right after construction, which is what the '
               'constructor itself does']
MIN_NONTRIVIAL = 2000
CFG = {}
S = {}

SUPPORTED = ['en-us', 'en-*', 'nl-nl', 'zh-cn', 'fr-fr', 'it-it', 'ja-jp', 'ko-kr', 'pt-br', 'es-es', 'es-mx', 'tr-tr', 'de-de']
VARIANTS = ['en-gb', 'en-au', 'en', 'fr-ca', 'fr', 'de-ch', 'de-at', 'pt-pt', 'zh-tw', 'zh-hk', 'es-ar', 'es', 'nl-be', 'it-ch', 'ja',
            'ko', 'tr', 'xx-yy', 'xx', 'e', '-', 'english']
SPECIAL = ['', None, ' en-us', 'en_us']
# unknown language tags that merely *begin* with the letters of a supported language (three-letter subtags, no hyphen)
for _c in ('en-us', 'fr-fr', 'de-de', 'es-es', 'pt-br', 'it-it', 'nl-nl', 'zh-cn', 'ja-jp', 'ko-kr', 'tr-tr'):
    _l, _r = _c.split('-')
    VARIANTS += [_l + 'x-' + _r, _l + 'xx', _l + _r]


def casings(c):
    out = [c, c.upper(), c.title()]
    if '-' in c:
        a, b = c.split('-', 1)
        out += [a.upper() + '-' + b, a + '-' + b.upper()]
    seen = []
    for x in out:
        if x not in seen:
            seen.append(x)
    return seen


def route(code):
    """reference routing, written from the statement"""
    if not code:
        return None
    c = code.lower()
    if c in SUPPORTED:
        return c
    prefix = c.split('-')[0].strip()
    cands = [s for s in SUPPORTED if s.startswith(prefix)] if prefix else list(SUPPORTED)
    if len(cands) == 1:
        return cands[0]
    if len(cands) > 1:
        star = [s for s in cands if '*' in s]
        if star:
            return star[-1]
    return c


def configure(tier, seed):
    CFG.update(tier=tier, seed=seed, depth=3 if tier == 'thorough' else 2)
    return {'shard_depth': 99, 'progress': True,
            'bounds': {'sequence_depth': CFG['depth'], 'culture_strings_depth1': len(SUPPORTED) * 5 + len(VARIANTS) * 3 + len(SPECIAL)},
            'blocks': ['all']}


def worker_init():
    import os
    configure(os.environ['VERIF_TIER'], int(os.environ['VERIF_SEED']))
    from recognizers_number import NumberRecognizer
    from recognizers_number_with_unit import NumberWithUnitRecognizer
    from recognizers_date_time import DateTimeRecognizer, DateTimeOptions
    from recognizers_sequence import SequenceRecognizer
    from recognizers_choice import ChoiceRecognizer
    S['classes'] = {'Number': NumberRecognizer, 'NumberWithUnit': NumberWithUnitRecognizer, 'DateTime': DateTimeRecognizer,
                    'Sequence': SequenceRecognizer, 'Choice': ChoiceRecognizer}
    S['options'] = {'Number': [0], 'NumberWithUnit': [0], 'Sequence': [0], 'Choice': [0],
                    'DateTime': [DateTimeOptions.NONE, DateTimeOptions.SKIP_FROM_TO_MERGE, DateTimeOptions.SPLIT_DATE_AND_TIME,
                                 DateTimeOptions.CALENDAR]}
    getters, registered = {}, {}
    for name, cls in S['classes'].items():
        rec = cls(None, cls.__init__.__defaults__[1] if False else S['options'][name][0] if name == 'DateTime' else
                  __import__('inspect').signature(cls.__init__).parameters['options'].default, False)
        registered[name] = set((k.model_type, k.culture) for k in rec.model_factory.model_factories)
        gs = []
        for attr in sorted(dir(cls)):
            if attr.startswith('get_') and attr.endswith('_model') and attr != 'get_model':
                gs.append(attr)
        getters[name] = gs
    S['registered'], S['getters'] = registered, getters
    # which model type does each getter ask for?  discovered by calling it once on a tagged recogniser
    S['type_of'] = {}
    for name, cls in S['classes'].items():
        state.reset_cache()
        rec = state.make_recognizer(cls, None, default_options(name), False)
        for g in getters[name]:
            m = getattr(rec, g)('en-us', False)
            S['type_of'][(name, g)] = m.key[0]
    state.reset_cache()
    strings = []
    for c in SUPPORTED:
        strings += casings(c)
    for c in VARIANTS:
        strings += casings(c)[:3]
    strings += SPECIAL
    S['strings'] = strings
    S['reduced_types'] = [('Number', 'get_number_model'), ('Number', 'get_ordinal_model'), ('DateTime', 'get_datetime_model'),
                          ('NumberWithUnit', 'get_currency_model'), ('Sequence', 'get_ip_address_model'), ('Choice', 'get_boolean_model')]
    S['reduced_cultures'] = ['en-us', 'EN-US', 'es-es', 'es-mx', 'es-ar', 'FR-CA', 'zh-cn', 'zh-tw', 'ja-jp', 'xx-yy', 'en-gb', None]


def default_options(name):
    import inspect
    return inspect.signature(S['classes'][name].__init__).parameters['options'].default


class Ref(object):
    """the reference model: registry + routing + a dict cache"""

    def __init__(self):
        self.cache = {}

    def request(self, name, model_type, culture, fallback, target_culture, options):
        c = culture if culture is not None else target_culture
        r = route(c)
        want = None
        if (model_type, r) in S['registered'][name]:
            want = r
        elif fallback and (model_type, 'en-us') in S['registered'][name]:
            want = 'en-us'
        if want is None:
            return 'ValueError', None
        key = (model_type, want, int(options))
        return want, key


def do_request(ch, hist_label, recs, ref, seen_objects, req):
    """one transition on the real system + the reference; returns False after recording a failure"""
    name, getter, culture, fallback, target, eager, options = req
    mt = S['type_of'][(name, getter)]
    rk = (name, target, int(options), eager)
    if rk not in recs:
        recs[rk] = state.make_recognizer(S['classes'][name], target, options, eager)
        if eager:
            for (t, c) in S['registered'][name]:
                if target is None or target is c:      # the library compares with `is`; the model mirrors the code here
                    ref.cache.setdefault((t, c, int(options)), True)
    rec = recs[rk]
    want, key = ref.request(name, mt, culture, fallback, target, options)
    try:
        m = getattr(rec, getter)(culture, fallback)
        got = m.key[1] if isinstance(m, state.Tagged) and m.key[0] == mt else 'wrong-type:%r' % (getattr(m, 'key', None),)
    except ValueError:
        m, got = None, 'ValueError'
    record = {'history': hist_label, 'request': {'recognizer': name, 'getter': getter, 'culture': culture, 'fallback': fallback,
                                                 'target_culture': target, 'eager': eager, 'options': int(options)},
              'expected': want, 'observed': got}
    cls = 'routing|%s|%s' % (name, 'unsupported-or-unknown' if want in ('ValueError', 'en-us') and route(culture or target) != 'en-us' else 'supported')
    if got != want:
        lang = (culture or target or '').lower().split('-')[0] if isinstance(culture or target, str) else 'none'
        ch.fail('%s|%s|asked-%s|expected-%s-got-%s' % (cls, getter, lang if lang in ('ja', 'zh', 'en', 'es', 'fr', 'de', 'pt', 'it', 'nl', 'ko', 'tr') else 'other',
                                                       want if want == 'ValueError' else 'model:' + want, got), record)
        return False
    if m is not None:
        ref.cache[key] = True
        prev = seen_objects.get(key)
        if prev is not None and prev is not m:
            ch.fail('cache|same-key-different-object', record)
            return False
        for k2, o2 in seen_objects.items():
            if k2 != key and o2 is m:
                ch.fail('cache|object-shared-across-keys', record)
                return False
        seen_objects[key] = m
    real = state.cache_keys()
    model_state = frozenset(ref.cache)
    if real != model_state:
        record['real_cache_keys'] = sorted(map(str, real))
        record['model_cache_keys'] = sorted(map(str, model_state))
        ch.fail('cache|state-diverges-from-model', record)
        return False
    ch.see('cache_states', real)
    ch.tally('cache_transitions')
    return True


def body(ch):
    part = ch.pick('part', ('depth-1', 'sequences', 'behaviour'))
    if part == 'depth-1':
        name = ch.pick('recognizer', list(S['classes']))
        getter = ch.pick('getter', S['getters'][name])
        ch.shard()
        options = ch.pick('options', S['options'][name])
        culture = ch.pick('culture', S['strings'])
        fallback = ch.pick('fallback', (True, False))
        target = ch.pick('target', (None, 'same'))
        eager = ch.pick('eager', (False, True))
        if target == 'same':
            target = culture
        if options not in (0,) and name == 'DateTime':
            pass
        state.reset_cache()
        ok = do_request(ch, [], {}, Ref(), {}, (name, getter, culture, fallback, target, eager, options if name == 'DateTime' else default_options(name)))
        if ok:
            ch.ok(case=None, nontrivial=True, outcome='depth-1|%s' % name,
                  sample={'request': [name, getter, culture, fallback, target, eager], 'routes_to': route(culture if culture is not None else target)}
                  if culture in ('FR-CA', 'es-ar') else None)
    elif part == 'sequences':
        alphabet = [(n, g, c, f) for (n, g) in S['reduced_types'] for c in S['reduced_cultures'] for f in (True, False)]
        first = ch.pick_index('r1', len(alphabet))
        ch.shard()
        idxs = [first] + [ch.pick_index('r%d' % (i + 2), len(alphabet)) for i in range(CFG['depth'] - 1)]
        state.reset_cache()
        recs, ref, seen = {}, Ref(), {}
        hist = []
        for i in idxs:
            n, g, c, f = alphabet[i]
            if not do_request(ch, list(hist), recs, ref, seen, (n, g, c, f, None, False, default_options(n))):
                return
            hist.append([n, g, c, f])
        ch.ok(case=None, nontrivial=bool(seen), outcome='sequence|keys=%d' % len(seen), evals=len(idxs),
              sample={'history': hist, 'cache_keys': sorted(map(str, state.cache_keys()))} if len(seen) == 2 else None)
    else:
        # behavioural probe: the model answering for a culture string really speaks the language it routes to
        probes = {'en-us': ('three', '3'), 'es-es': ('tres', '3'), 'fr-fr': ('trois', '3'), 'pt-br': ('três', '3'), 'de-de': ('drei', '3'),
                  'it-it': ('tre', '3'), 'nl-nl': ('drie', '3'), 'zh-cn': ('三', '3'), 'ja-jp': ('三', '3'), 'es-mx': ('tres', '3')}
        culture = ch.pick('culture', [c for c in S['strings'] if c])
        fallback = ch.pick('fallback', (True, False))
        state.reset_cache()
        rec = state.make_recognizer(S['classes']['Number'], None, default_options('Number'), False)
        want, key = Ref().request('Number', 'NumberModel', culture, fallback, None, 0)
        try:
            m = rec.get_number_model(culture, fallback)
        except ValueError:
            m = None
        if (m is None) != (want == 'ValueError'):
            ch.fail('behaviour|error-mismatch', {'culture': culture, 'fallback': fallback, 'expected': want})
            return
        if m is None:
            ch.ok(case=None, nontrivial=False, outcome='behaviour|ValueError')
            return
        word, val = probes[want]
        res = m.parse(word)
        others = [w for c2, (w, v) in probes.items() if w != word and c2 not in (want,)]
        foreign = [w for w in others[:3] if [x for x in m.parse(w) if (x.resolution or {}).get('value') == '3'] and w not in ('tre', 'tres')]
        if len(res) != 1 or (res[0].resolution or {}).get('value') != val:
            ch.fail('behaviour|does-not-speak-%s' % want, {'culture': culture, 'fallback': fallback, 'probe': word,
                                                          'observed': [(x.text, x.resolution) for x in res]})
        else:
            ch.ok(case=None, nontrivial=True, outcome='behaviour|%s' % want)


def canary():
    if route('FR-CA') != 'fr-fr' or route('es-ar') != 'es-ar' or route('en-gb') != 'en-*' or route('EN-US') != 'en-us' or route(None) is not None:
        return 'reference routing broken'
    return True
