"""C15 - TIMEX resolution and constraint solving only return correct, valid values.
Small-scope exhaustive: TimexResolver.resolve over weekday / duration / year / month TIMEXes x reference
days, and TimexRangeResolver.evaluate over all small candidate sets x constraint sets, against brute
force over the calendar window."""
import itertools
from datetime import date, datetime, timedelta
from decimal import Decimal

ID = 'C15'
RULE = ('resolve: 7 weekday TIMEXes x every reference day of a mid-year and a New-Year window in 3 years; 7 units x 8 amounts; year '
        'and month TIMEXes for 12 months x 5 years, XXXX-MM x reference years; well-formedness of every entry for every date/week/'
        'season/time form. evaluate: every candidate set of size 1-2 from a pool of 9 (weekdays, month-days incl. 29 Feb, times, '
        'weekday+time) x every constraint set of size 1-3 (three only with a single candidate in the quick tier) from 8 date ranges (month, December, straddling a year end, '
        'leap February, overlapping pairs, whole year) and 3 time ranges. Oracle: brute force over every day of the window. '
        'Non-trivial = a non-empty, fully checked result; distinct = distinct (call, arguments).')
ASSUMPTIONS = ['"immediately before and after the reference date" = the nearest such weekday strictly before and strictly after it',
               'an exception escaping resolve/evaluate counts as a violation (the statement promises values)',
               '"instance of a candidate" is read literally: a result must instantiate at least one candidate']
MIN_NONTRIVIAL = 1000
CFG = {}
T = {}
UNITS = {'Y': 31536000, 'M': 2592000, 'W': 604800, 'D': 86400, 'TH': 3600, 'TM': 60, 'TS': 1}
CAND_POOL = ['XXXX-WXX-1', 'XXXX-WXX-3', 'XXXX-WXX-7', 'XXXX-05-29', 'XXXX-12-31', 'XXXX-02-29', 'T09', 'T14:30', 'XXXX-WXX-3T14']
DATE_CONS = ['2017-09', '2017-12', '(2017-09-01,2017-09-08,P7D)', '(2017-12-25,2018-01-08,P14D)', '(2018-02-01,2018-03-15,P42D)',
             '2018', '(2016-02-01,2016-03-10,P38D)', '(2017-09-05,2017-09-20,P15D)']
TIME_CONS = ['(T08,T12,PT4H)', '(T12,T16,PT4H)', '(T10,T15,PT5H)']
CON_RANGES = {'2017-09': (date(2017, 9, 1), date(2017, 10, 1)), '2017-12': (date(2017, 12, 1), date(2018, 1, 1)),
              '(2017-09-01,2017-09-08,P7D)': (date(2017, 9, 1), date(2017, 9, 8)),
              '(2017-12-25,2018-01-08,P14D)': (date(2017, 12, 25), date(2018, 1, 8)),
              '(2018-02-01,2018-03-15,P42D)': (date(2018, 2, 1), date(2018, 3, 15)), '2018': (date(2018, 1, 1), date(2019, 1, 1)),
              '(2016-02-01,2016-03-10,P38D)': (date(2016, 2, 1), date(2016, 3, 10)),
              '(2017-09-05,2017-09-20,P15D)': (date(2017, 9, 5), date(2017, 9, 20))}
TIME_RANGES = {'(T08,T12,PT4H)': (8 * 3600, 12 * 3600), '(T12,T16,PT4H)': (12 * 3600, 16 * 3600), '(T10,T15,PT5H)': (10 * 3600, 15 * 3600)}


def configure(tier, seed):
    CFG.update(tier=tier, seed=seed, max_cons=3 if tier == 'thorough' else 2)
    return {'shard_depth': 2, 'progress': True,
            'bounds': {'candidate_pool': CAND_POOL, 'date_constraints': DATE_CONS, 'time_constraints': TIME_CONS,
                       'max_candidates': 2, 'max_constraints': CFG['max_cons']},
            'blocks': ['all']}


def worker_init():
    import os
    configure(os.environ['VERIF_TIER'], int(os.environ['VERIF_SEED']))
    from datatypes_timex_expression import Timex, TimexResolver, TimexRangeResolver
    T.update(Timex=Timex, resolve=TimexResolver.resolve, evaluate=TimexRangeResolver.evaluate)


def valid_date(s):
    try:
        return isinstance(s, str) and len(s) == 10 and bool(datetime.strptime(s, '%Y-%m-%d'))
    except ValueError:
        return False


def entries(res):
    return [{'timex': e.timex, 'type': e.type, 'value': e.value, 'start': e.start, 'end': e.end} for e in res.values]


def fail(ch, key, **rec):
    ch.fail(key, rec)


def do_resolve(ch, key, timex, ref):
    try:
        return entries(T['resolve']([timex], ref))
    except Exception as e:
        fail(ch, '%s|exception|%s' % (key, type(e).__name__), timex=timex, reference=ref.isoformat(), error=repr(e))
        return None


def body(ch):
    part = ch.pick('part', ('resolve-weekday', 'resolve-duration', 'resolve-period', 'resolve-wellformed', 'evaluate'))
    if part == 'resolve-weekday':
        wd = ch.pick('weekday', range(1, 8))
        y = ch.pick('year', (2017, 1950, 2090))
        start = ch.pick('window', (date(y, 6, 5), date(y, 12, 18)))
        off = ch.pick('day', range(28))
        x = start + timedelta(days=off)
        ref = datetime(x.year, x.month, x.day)
        got = do_resolve(ch, 'resolve-weekday', 'XXXX-WXX-%d' % wd, ref)
        if got is None:
            return
        before = x - timedelta(days=((x.weekday() - (wd - 1)) % 7) or 7)
        after = x + timedelta(days=(((wd - 1) - x.weekday()) % 7) or 7)
        exp = [before.isoformat(), after.isoformat()]
        if [e['value'] for e in got] != exp or any(e['type'] != 'date' for e in got):
            where = 'year-boundary' if before.year != after.year or before.year != x.year or after.year != x.year else 'inside-year'
            fail(ch, 'resolve-weekday|value|%s' % where, timex='XXXX-WXX-%d' % wd, reference=ref.isoformat(), expected=exp, observed=got)
        else:
            ch.ok(case=('w', wd, ref), outcome=part, sample={'timex': 'XXXX-WXX-%d' % wd, 'reference': ref.isoformat(), 'entries': got} if off == 0 else None)
    elif part == 'resolve-duration':
        unit = ch.pick('unit', list(UNITS))
        amount = ch.pick('amount', ('1', '2', '10', '0.5', '1.5', '100', '0', '5000'))
        timex = 'P%s%s%s' % ('T' if unit[0] == 'T' else '', amount, unit[-1])
        got = do_resolve(ch, 'resolve-duration', timex, datetime(2017, 9, 28))
        if got is None:
            return
        exp = Decimal(amount) * UNITS[unit]
        ok = len(got) == 1 and got[0]['type'] == 'duration'
        try:
            ok = ok and Decimal(got[0]['value']) == exp
        except Exception:
            ok = False
        if not ok:
            fail(ch, 'resolve-duration|value|%s' % ('zero' if amount == '0' else 'fraction' if '.' in amount else 'integer'),
                 timex=timex, expected=str(exp), observed=got)
        else:
            ch.ok(case=('d', timex), outcome=part)
    elif part == 'resolve-period':
        form = ch.pick('form', ('year', 'year-month', 'open-month'))
        y = ch.pick('year', (1950, 1999, 2000, 2017, 2090))
        ref = datetime(y, 9, 28)
        if form == 'year':
            timex, exp = '%04d' % y, [('%04d-01-01' % y, '%04d-01-01' % (y + 1))]
        else:
            m = ch.pick('month', range(1, 13))
            nxt = lambda yy: ('%04d-%02d-01' % (yy, m), '%04d-%02d-01' % ((yy + 1, 1) if m == 12 else (yy, m + 1)))
            if form == 'year-month':
                timex, exp = '%04d-%02d' % (y, m), [nxt(y)]
            else:
                timex, exp = 'XXXX-%02d' % m, [nxt(y - 1), nxt(y)]
        got = do_resolve(ch, 'resolve-period|%s' % form, timex, ref)
        if got is None:
            return
        obs = [(e['start'], e['end']) for e in got]
        if obs != exp or any(e['type'] != 'daterange' for e in got):
            fail(ch, 'resolve-period|%s|range|%s' % (form, 'december' if timex.endswith('-12') else 'other'), timex=timex,
                 reference=ref.isoformat(), expected=exp, observed=got)
        else:
            ch.ok(case=('p', timex, y), outcome=part)
    elif part == 'resolve-wellformed':
        form = ch.pick('form', ('date', 'open-date', 'week', 'weekend', 'season', 'time', 'datetime', 'part-of-day', 'date+part',
                                'open-date+time'))
        y = ch.pick('year', (2016, 2017, 2020))
        ref = datetime(2017, 9, 28)
        if form == 'date':
            m = ch.pick('month', range(1, 13))
            timex = '%04d-%02d-%02d' % (y, m, ch.pick('day', (1, 15, 28)))
        elif form == 'open-date':
            m = ch.pick('month', range(1, 13))
            d = ch.pick('day', (1, 28, 29, 30, 31))
            timex = 'XXXX-%02d-%02d' % (m, d)
            try:
                date(2016, m, d)
            except ValueError:
                ch.prune()
        elif form in ('week', 'weekend'):
            timex = '%04d-W%02d%s' % (y, ch.pick('week', range(1, 53)), '-WE' if form == 'weekend' else '')
        elif form == 'season':
            timex = ch.pick('season', ('SP', 'SU', 'FA', 'WI', '%04d-SU' % y))
        elif form == 'time':
            timex = ch.pick('time', ('T00', 'T09', 'T12:30', 'T23:59:59'))
        elif form == 'datetime':
            timex = '%04d-%02d-%02dT%s' % (y, ch.pick('month', (1, 2, 12)), ch.pick('day', (1, 28)), ch.pick('time', ('09', '00:30', '23:59:59')))
        elif form == 'part-of-day':
            timex = 'T' + ch.pick('part', ('MO', 'AF', 'EV', 'NI'))
        elif form == 'date+part':
            timex = '%04d-%02d-15T%s' % (y, ch.pick('month', (1, 12)), ch.pick('part', ('MO', 'AF', 'EV', 'NI')))
        else:
            timex = 'XXXX-%02d-%02dT%s' % (ch.pick('month', (2, 12)), ch.pick('day', (1, 28)), ch.pick('time', ('09', '14:30')))
        got = do_resolve(ch, 'resolve-wellformed|%s' % form, timex, ref)
        if got is None:
            return
        bad = None
        for e in got:
            if e['type'] in ('date',) and e['value'] != 'not resolved' and not valid_date(e['value']):
                bad = 'invalid-date-value'
            if e['type'] == 'datetime' and e['value'] and not valid_date(str(e['value'])[:10]):
                bad = 'invalid-datetime-value'
            if e['type'] == 'daterange' and e['start'] is not None:
                if not (valid_date(e['start']) and valid_date(e['end'])):
                    bad = 'invalid-range-endpoint'
                elif not e['start'] < e['end']:
                    bad = 'range-start-not-before-end'
        if bad:
            fail(ch, 'resolve-wellformed|%s|%s' % (form, bad), timex=timex, reference=ref.isoformat(), observed=got)
        else:
            ch.ok(case=('wf', timex), outcome=part, nontrivial=bool(got))
    else:
        ncand = ch.pick('n_candidates', (1, 2))
        cands = list(ch.pick('candidates', list(itertools.combinations(CAND_POOL, ncand))))
        # quick tier: three date constraints only with a single candidate
        nd = ch.pick('n_date_constraints', (1, 2, 3) if (ncand == 1 or CFG['tier'] == 'thorough') else (1, 2))
        dcons = list(ch.pick('date_constraints', list(itertools.combinations(DATE_CONS, nd))))
        tcons = list(ch.pick('time_constraints', [()] + [(t,) for t in TIME_CONS] + [tuple(TIME_CONS[:2])]))
        cons = dcons + tcons
        # history: the same process first evaluates the first constraint together with a range that overlaps it (collapsing
        # ranges must not change what a later call sees)
        hist = None
        if nd == 1 and not tcons:
            lo, hi = CON_RANGES[dcons[0]]
            overl = [c for c in DATE_CONS if c != dcons[0] and CON_RANGES[c][0] < hi and lo < CON_RANGES[c][1]]
            hist = ch.pick('history', [None] + overl)
            if hist:
                try:
                    from vmc.explore import time_limit
                    with time_limit(3):
                        T['evaluate'](cands, [dcons[0], hist])
                        T['evaluate'](cands, [hist, dcons[0]])
                except Exception:
                    pass
        key = 'evaluate|%s' % '+'.join(sorted({'weekday' if 'WXX' in c and 'T' not in c else 'weekday+time' if 'WXX' in c else
                                                'time' if c.startswith('T') else 'feb-29' if c == 'XXXX-02-29' else 'month-day' for c in cands}))
        from vmc.explore import LeafTimeout, time_limit
        try:
            with time_limit(3):
                res = T['evaluate'](cands, cons)
            out = [r.timex_value() for r in res]
        except LeafTimeout:
            fail(ch, '%s|no-termination|%d-date-constraints' % (key, len(dcons)), candidates=cands, constraints=cons,
                 error='evaluate() did not return within 3 s')
            return
        except Exception as e:
            fail(ch, '%s|exception|%s|%s' % (key, type(e).__name__, 'december-constraint' if '2017-12' in dcons else 'other'),
                 candidates=cands, constraints=cons, error=repr(e))
            return
        rec = dict(candidates=cands, constraints=cons, observed=out, history=hist)
        if hist:
            key += '|after-evaluating-with-an-overlapping-range'
        for tx in out:
            d, tsec = None, None
            try:
                if len(tx) >= 10 and tx[4] == '-' and tx[:4].isdigit():
                    d = date(int(tx[:4]), int(tx[5:7]), int(tx[8:10]))
                    if len(tx) > 10:
                        parts = tx[11:].split(':')
                        tsec = int(parts[0]) * 3600 + (int(parts[1]) * 60 if len(parts) > 1 else 0) + (int(parts[2]) if len(parts) > 2 else 0)
            except ValueError:
                d = None
            if d is None:
                fail(ch, '%s|not-definite' % key, **rec)
                return
            if not any(lo <= d < hi for lo, hi in (CON_RANGES[c] for c in dcons)):
                fail(ch, '%s|outside-date-constraints' % key, **rec)
                return
            if tcons and (tsec is None or not any(lo <= tsec < hi for lo, hi in (TIME_RANGES[c] for c in tcons))):
                fail(ch, '%s|outside-time-constraints' % key, **rec)
                return
            inst = False
            for c in cands:
                if 'WXX' in c:
                    inst = inst or d.isoweekday() == int(c[9])
                elif c.startswith('XXXX-'):
                    inst = inst or (d.month, d.day) == (int(c[5:7]), int(c[8:10]))
                elif c.startswith('T'):
                    p = c[1:].split(':')
                    inst = inst or tsec == int(p[0]) * 3600 + (int(p[1]) * 60 if len(p) > 1 else 0)
            if not inst:
                fail(ch, '%s|not-an-instance-of-a-candidate' % key, **rec)
                return
        if len(cands) == 1 and len(dcons) == 1 and not tcons and 'WXX' in cands[0] and 'T' not in cands[0]:
            lo, hi = CON_RANGES[dcons[0]]
            exp = []
            x = lo
            while x < hi:
                if x.isoweekday() == int(cands[0][9]):
                    exp.append(x.isoformat())
                x += timedelta(days=1)
            if sorted(out) != exp:
                fail(ch, 'evaluate|weekday|single-range|not-every-day', expected=exp, **rec)
                return
        ch.ok(case=(tuple(cands), tuple(cons)), nontrivial=bool(out), outcome='evaluate|%d' % min(len(out), 3),
              sample=rec if len(out) == 2 else None)


def canary():
    return True if not valid_date('2017-13-01') and valid_date('2017-12-01') else 'date validator broken'
