"""C04 - spelled-out cardinals and ordinals resolve to the integer they denote."""
import itertools

from oracles import numerals

ID = 'C04'
RULE = ('English: every n below the bound U {10^k, 10^k +/- 1} U the full cross product of per-group digit classes over five 3-digit '
        'groups x {with/without "and"} x {hyphen/space in tens} x {cardinal via the number model, ordinal via the ordinal model} x '
        '{alone, carrier}; Spanish, French, German, Chinese, Japanese: cardinals for every n below the bound U round numbers and '
        'boundary composites up to 10^12, ordinals zh/ja 第N; Portuguese n < 1000 and round numbers, Italian and Dutch n < 100. Oracle: one entity over the whole phrase with value == str(n). '
        'Non-trivial = entity found with the right value; distinct = distinct (culture, model, phrase).')
ASSUMPTIONS = ['numeral grammars are the generators in oracles/numerals.py; every word they emit for a whitespace-separated culture '
               'must be a key of that culture\'s own number maps or a listed connector, otherwise the run is a harness error',
               'Portuguese is generated below 1000 (+ round numbers), Italian and Dutch below 100: their compounding / elision rules '
               'for larger numbers were not encoded; beyond that they are covered by C19 on the spec inputs only']
MIN_NONTRIVIAL = 20000
CFG = {}
M = {}
CLASSES_FULL = [0, 1, 9, 10, 11, 19, 20, 21, 99, 100, 101, 110, 111, 999]
CARRIER = {'pt-br': ('tem ', ' coisas'), 'it-it': ('ci sono ', ' cose'), 'nl-nl': ('er zijn ', ' dingen'), 'en-us': ('there are ', ' of them'), 'es-es': ('hay ', ' cosas'), 'fr-fr': ('il y a ', ' choses'),
           'de-de': ('es gibt ', ' dinge'), 'zh-cn': ('我有', '个'), 'ja-jp': ('私は', 'です')}
GEN = {'es-es': numerals.spanish, 'fr-fr': numerals.french, 'de-de': numerals.german, 'zh-cn': numerals.chinese,
       'ja-jp': numerals.japanese, 'pt-br': numerals.portuguese, 'it-it': numerals.italian, 'nl-nl': numerals.dutch}
# cultures whose generator covers only a prefix of the integers: (exhaustive below, extra round numbers)
SMALL_RANGE = {'pt-br': (1000, [1000, 2000, 21000, 100000, 10 ** 6, 2 * 10 ** 6]), 'it-it': (100, [100, 1000]), 'nl-nl': (100, [100, 1000])}


def structured(classes):
    out = set()
    for k in range(1, 15):
        out.update((10 ** k - 1, 10 ** k, 10 ** k + 1))
    for t in itertools.product(classes, repeat=5):
        n = 0
        for g in t:
            n = n * 1000 + g
        out.add(n)
    return sorted(x for x in out if x < 10 ** 15)


def configure(tier, seed):
    thorough = tier == 'thorough'
    classes = CLASSES_FULL if thorough else [0, 1, 21, 100, [999, 19, 111, 11][seed % 4]]
    en = sorted(set(range(0, 100000 if thorough else 10000)) | set(structured(classes)))
    other_small = list(range(0, 10000 if thorough else 1000))
    other_big = [10 ** k for k in range(3, 13)] + [1001, 1100, 2000, 2021, 10001, 21000, 100000, 100001, 999999, 1000001, 2000000,
                                                    21000000, 100000000, 1000000000, 2000000000, 10 ** 12 - 1, 123456789,
                                                    987654321012]
    CFG.update(tier=tier, en=en, other=sorted(set(other_small) | set(other_big)), chunk=500)
    return {'shard_depth': 99, 'progress': True,
            'bounds': {'english_integers': len(en), 'max': max(en), 'group_digit_classes': classes,
                       'other_culture_integers': len(CFG['other']), 'cultures': ['en-us'] + list(GEN)},
            'blocks': ['all'] if thorough else ['digit classes %r' % classes]}


def worker_init():
    import os
    configure(os.environ['VERIF_TIER'], int(os.environ['VERIF_SEED']))
    from recognizers_number import NumberRecognizer
    for cul in ['en-us'] + list(GEN):
        r = NumberRecognizer(cul)
        M[(cul, 'number')] = r.get_number_model(cul, False)
        M[(cul, 'ordinal')] = r.get_ordinal_model(cul, False)
    # dialect guard: every word of the whitespace-separated generators must be known to the culture's own maps
    import importlib
    for cul, modname, extra in (('es-es', 'spanish', {'y', 'un', 'veintiún'}), ('fr-fr', 'french', {'et', 'cents'}), ('de-de', 'german', set()),
                                ('pt-br', 'portuguese', {'e'})):
        mod = importlib.import_module('recognizers_number.resources.%s_numeric' % modname)
        cls = [v for k, v in vars(mod).items() if k.endswith('Numeric') and isinstance(v, type)][0]
        known = set(cls.CardinalNumberMap) | set(getattr(cls, 'RoundNumberMap', {})) | extra
        M[('known', cul)] = known


def check(ch, cul, model, phrase, n, cls, pre='', post=''):
    q = pre + phrase + post
    got = [(e.start, e.end, e.text, (e.resolution or {}).get('value')) for e in M[(cul, model)].parse(q)]
    rec = {'culture': cul, 'model': model, 'query': q, 'n': n, 'observed': got}
    span = (len(pre), len(pre) + len(phrase) - 1)
    if len(got) == 1 and 0 <= got[0][0] <= got[0][1] < len(q):
        # outer whitespace inside the reported span is tolerated (as in C01)
        s0, e0 = got[0][0], got[0][1]
        while s0 < e0 and q[s0].isspace():
            s0 += 1
        while e0 > s0 and q[e0].isspace():
            e0 -= 1
        got[0] = (s0, e0) + got[0][2:]
    if len(got) != 1 or (got[0][0], got[0][1]) != span:
        kind = 'missing' if not got else 'split-or-span'
        if cul == 'en-us':
            # the English integer set rotates with the seed, so English failure classes are named by what went wrong and
            # by the numeral's structure, not by magnitude/shape: whether a ten..nineteen word precedes a scale word
            words = phrase.replace('-', ' ').split()
            scales = [i for i, w in enumerate(words) if w in ('thousand', 'million', 'billion', 'trillion')]
            ctx = 'teen-before-a-scale-word' if any(i > 0 and words[i - 1] in numerals.EN_ONES[10:20] for i in scales) else 'other'
            if len(got) == 1 and phrase.endswith(got[0][2]) and got[0][1] == span[1]:
                kind = 'only-suffix-extracted'
            ch.fail('%s|%s|%s|%s%s' % (cul, model, kind, ctx, '|and' if ' and ' in phrase else ''), rec)
            return
        ch.fail('%s|%s|%s|%s' % (cul, model, cls, kind), rec)
    elif got[0][3] != str(n):
        ch.fail('%s|%s|%s|value' % (cul, model, cls), rec)
    else:
        ch.ok(case=(cul, model, q), outcome='%s|%s' % (cul, model), sample=rec if n > 10 ** 6 and pre else None)


def magnitude(n):
    return 'below-100' if n < 100 else 'below-10^3' if n < 1000 else 'below-10^4' if n < 10 ** 4 else \
        'below-10^6' if n < 10 ** 6 else 'below-10^9' if n < 10 ** 9 else 'below-10^12' if n < 10 ** 12 else 'below-10^15'


def shape(n):
    """which 3-digit groups are non-zero, e.g. 'x0x' - the compositional shape of the numeral"""
    s = ''
    while n:
        n, g = divmod(n, 1000)
        s = ('x' if g else '0') + s
    return s or '0'


def body(ch):
    cul = ch.pick('culture', ['en-us'] + list(GEN))
    if cul == 'en-us':
        model = ch.pick('model', ('number', 'ordinal'))
        ints = CFG['en']
        ci = ch.pick_index('chunk', (len(ints) + CFG['chunk'] - 1) // CFG['chunk'])
        ch.shard()
        n = ch.pick('n', ints[ci * CFG['chunk']:(ci + 1) * CFG['chunk']])
        use_and = ch.pick('and', (False, True))
        hyphen = ch.pick('hyphen', (True, False))
        pre, post = ch.pick('carrier', (('', ''), CARRIER[cul]))
        if model == 'ordinal' and n == 0:
            ch.prune()
        phrase = numerals.english(n, use_and, hyphen) if model == 'number' else numerals.english_ordinal(n, use_and, hyphen)
        if (use_and and ' and ' not in ' ' + phrase) or (not hyphen and phrase == (numerals.english(n, use_and, True) if model == 'number' else numerals.english_ordinal(n, use_and, True))):
            ch.prune()          # the variant does not change this phrase: already covered
        check(ch, cul, model, phrase, n, '%s|shape-%s%s' % (magnitude(n), shape(n), '|and' if use_and else ''), pre, post)
    else:
        model = ch.pick('model', ('number', 'ordinal') if cul in ('zh-cn', 'ja-jp') else ('number',))
        ints = CFG['other']
        if cul in SMALL_RANGE:
            ints = list(range(SMALL_RANGE[cul][0])) + SMALL_RANGE[cul][1]
        ci = ch.pick_index('chunk', (len(ints) + CFG['chunk'] - 1) // CFG['chunk'])
        ch.shard()
        n = ch.pick('n', ints[ci * CFG['chunk']:(ci + 1) * CFG['chunk']])
        pre, post = ch.pick('carrier', (('', ''), CARRIER[cul]))
        phrase = GEN[cul](n)
        if ('known', cul) in M:
            for w in phrase.split():
                if w not in M[('known', cul)] and not all(x in M[('known', cul)] for x in w.split('-')) and cul != 'de-de':
                    from vmc.explore import HarnessError
                    raise HarnessError('generator for %s emitted %r (in %r) which the culture\'s number maps do not list' % (cul, w, phrase))
        if model == 'ordinal':
            if n == 0:
                ch.prune()
            phrase = '第' + phrase
        check(ch, cul, model, phrase, n, '%s|shape-%s' % (magnitude(n), shape(n)), pre, post)


def canary():
    if numerals.english(1234567, True, True) != 'one million two hundred and thirty-four thousand five hundred and sixty-seven':
        return 'english generator broken: ' + numerals.english(1234567, True, True)
    if numerals.english_ordinal(21) != 'twenty-first' or numerals.english_ordinal(100) != 'one hundredth':
        return 'ordinal generator broken'
    if numerals.spanish(21001) != 'veintiún mil uno' or numerals.french(280) != 'deux cent quatre-vingts' or \
            numerals.german(1321) != 'eintausenddreihunderteinundzwanzig' or numerals.chinese(10105) != '一万零一百零五':
        return 'generator broken: %r %r %r %r' % (numerals.spanish(21001), numerals.french(280), numerals.german(1321), numerals.chinese(10105))
    from vmc.explore import Acc, Ch
    acc = Acc()
    check(Ch([], acc), 'en-us', 'number', 'twenty-one', 22, 'canary')
    return True if acc.failures else 'oracle accepted a wrong value'
