"""C07 - clock times resolve to the right 24-hour time, alone or attached to a date."""
from datetime import date, datetime, timedelta

from oracles import dt

ID = 'C07'
RULE = ('English: every HH:MM with seconds in {none,00,01,30,59} (thorough: all 86,400 HH:MM:SS) bare and after "at"; every '
        '12-hour spelling h[:mm] x 8 am/pm markers and without marker; "h o\'clock"; <date> at <time> for 9 date expressions (incl. a bare weekday and a month/day without year: two candidate dates, each with every reading) x '
        '40 boundary times x 4 references. Other cultures: HH:MM in the culture\'s notation for every hour x 12 minutes. Oracle: '
        'hour 0 / 13-23 or a marker -> exactly one reading; hour 1-12 without marker -> exactly the two readings twelve hours '
        'apart; composed datetimes = date oracle + time oracle. Non-trivial = entity found with the expected readings; distinct '
        '= distinct (culture, query, reference).')
ASSUMPTIONS = ['the entity may include the introducing particle ("at", "um ... uhr"): its span must contain the time literal and '
               'stay inside the expression',
               'TIMEX of a time is compared numerically (T15:30 == T15:30:00) and must equal the value',
               'relative date oracles (tomorrow, yesterday, next monday, N days ago) are plain datetime arithmetic']
MIN_NONTRIVIAL = 1000
CFG = {}

REFS = [datetime(2016, 11, 7, 12, 0, 0), datetime(1950, 1, 1, 0, 0, 0), datetime(2020, 2, 29, 10, 20, 30),
        datetime(2090, 12, 31, 23, 59, 59)]
MARKERS = ['am', 'pm', ' am', ' pm', 'a.m.', 'p.m.', 'AM', 'PM']
OTHER_FMT = {'es-es': ('a las ', '%d:%02d', ''), 'fr-fr': ('à ', '%dh%02d', ''), 'pt-br': ('às ', '%d:%02d', ''),
             'it-it': ('alle ', '%d:%02d', ''), 'de-de': ('um ', '%d:%02d', ' uhr'), 'nl-nl': ('om ', '%d:%02d', ''),
             'zh-cn': ('', '%d点%02d分', '')}


def configure(tier, seed):
    thorough = tier == 'thorough'
    CFG.update(tier=tier, seed=seed,
               secs=[None] + (list(range(60)) if thorough else [0, 1, 30, 59]),
               minutes_other=list(range(60)) if thorough else [0, 1, 5, 9, 10, 15, 29, 30, 31, 45, 58, 59])
    times40 = []
    for h in (0, 1, 9, 11, 12, 13, 21, 23):
        for m, s in ((None, None), (0, None), (5, None), (30, None), (59, 59)):
            times40.append((h, m, s))
    CFG['times40'] = times40
    return {'shard_depth': 2, 'progress': True,
            'bounds': {'hours': '0-23', 'minutes': '0-59', 'seconds': CFG['secs'], 'markers': MARKERS,
                       'composition_times': len(times40), 'references': [r.isoformat() for r in REFS]},
            'blocks': ['all']}


def worker_init():
    import os
    configure(os.environ['VERIF_TIER'], int(os.environ['VERIF_SEED']))


def tval(h, m, s):
    return '%02d:%02d:%02d' % (h, m or 0, s or 0)


def readings(h, m, s, marker):
    """list of (h, m, s) the statement promises"""
    if marker is not None:
        mk = marker.strip().lower().replace('.', '')
        hh = h % 12 + (12 if mk == 'pm' else 0)
        return [(hh, m, s)]
    if h == 0 or h >= 13:
        return [(h, m, s)]
    return [(h, m, s), ((h + 12) % 24, m, s)]


def timex_time(tx):
    m = dt._TX_TIME.match(tx or '')
    if not m:
        return None
    return '%s:%s:%s' % (m.group(1), m.group(2) or '00', m.group(3) or '00')


def check_time(ch, cls, cul, q, ref, lit_span, region, exp, record_extra=None):
    got = dt.run(cul, q, ref)
    rec = {'culture': cul, 'query': q, 'reference': ref.isoformat(), 'expected_readings': [tval(*r) for r in exp],
           'observed': got}
    if record_extra:
        rec.update(record_extra)
    cand = [g for g in got if g[0] <= lit_span[0] and g[1] >= lit_span[1]]
    if len(got) != 1 or not cand:
        ch.fail('%s|%s' % (cls, 'missing' if not cand else 'extra-entity'), rec)
        return
    s, e, text, tn, vals = cand[0]
    if s < region[0] or e > region[1]:
        ch.fail('%s|span' % cls, rec)
    elif tn != 'datetimeV2.time':
        ch.fail('%s|type' % cls, rec)
    elif vals is None:
        ch.fail('%s|resolution-missing' % cls, rec)
    elif [v.get('value') for v in vals] != [tval(*r) for r in exp] and \
            sorted(v.get('value') for v in vals) != sorted(tval(*r) for r in exp):
        ch.fail('%s|%s' % (cls, 'readings' if len(vals) != len(exp) else 'value'), rec)
    elif any(v.get('type') != 'time' or timex_time(v.get('timex')) != v.get('value') for v in vals):
        ch.fail('%s|timex' % cls, rec)
    else:
        ch.ok(case=(cul, q, ref), outcome=cls, sample=rec if len(exp) == 2 and record_extra is None else None)


def date_exprs(ref):
    """(expression, [dates]) pairs: absolute (C06 layouts), relative (C08 families) and the two-candidate families of C09 (a bare
    weekday name and a month/day without year, both chosen away from the reference's own day): every candidate date must get
    every reading of the clock time"""
    d0 = ref.date()
    monday_next = d0 - timedelta(days=d0.weekday()) + timedelta(days=7)
    wd = d0 + timedelta(days=2)
    names = ['monday', 'tuesday', 'wednesday', 'thursday', 'friday', 'saturday', 'sunday']
    md = d0 + timedelta(days=40)
    if (md.month, md.day) == (2, 29):
        md += timedelta(days=1)

    def on_year(y):
        return date(y, md.month, md.day)
    past = max(x for x in (on_year(d0.year - 1), on_year(d0.year)) if x < d0)
    future = min(x for x in (on_year(d0.year), on_year(d0.year + 1)) if x >= d0)
    return [('2016-11-07', [date(2016, 11, 7)]), ('november 7, 2016', [date(2016, 11, 7)]), ('12/31/1999', [date(1999, 12, 31)]),
            ('tomorrow', [d0 + timedelta(days=1)]), ('yesterday', [d0 - timedelta(days=1)]), ('next monday', [monday_next]),
            ('3 days ago', [d0 - timedelta(days=3)]),
            (names[wd.weekday()], [wd - timedelta(days=7), wd]),
            ('%s %d' % (dt.MONTHS['en-us'][md.month - 1], md.day), [past, future])]


def body(ch):
    part = ch.pick('part', ('24h', '12h', 'oclock', 'date+time', 'other-cultures', 'two-threads'))
    ref = REFS[0]
    if part == 'two-threads':
        # two callers recognising different clock times share the cached model: every schedule with <= 1 preemption, every
        # call of a function of the time / datetime parsers and the merging modules being a scheduling point
        import os
        from vmc import env, sched
        pair = ch.pick('pair', (('12 am', '21:45:10'), ('tomorrow at 7:40 pm', 'at 3:30')))
        alone = {q: dt.run('en-us', q, ref) for q in pair}
        plan, ex = sched.pick_and_run(ch, CFG.setdefault('counts', {}), pair, os.path.join(env.REPO, 'Python', 'libraries'),
                                      ('files', ('base_time.py', 'base_datetime.py', 'base_merged.py', 'models.py')), 1,
                                      [lambda q=pair[0]: dt.run('en-us', q, ref), lambda q=pair[1]: dt.run('en-us', q, ref)], chunk=60)
        for tid, q in enumerate(pair):
            got = ex.results[tid] if ex.errors[tid] is None else 'EXC ' + ex.errors[tid]
            if got != alone[q]:
                ch.fail('two-threads|differs-from-sequential', {'queries': pair, 'plan': plan, 'thread': tid, 'observed': got, 'alone': alone[q]})
                return
        ch.ok(case=(pair, tuple(map(tuple, plan))), outcome='two-threads', evals=2)
        return
    if part == '24h':
        h = ch.pick('hour', range(24))
        m = ch.pick('minute', range(60))
        s = ch.pick('second', CFG['secs'])
        pad = ch.pick('hour_digits', ('2', '1') if h < 10 else ('2',))
        pre = ch.pick('prefix', ('', 'at ', 'it is ', 'see you at ') if s in (None, 30) else ('',))
        lit = ('%02d' % h if pad == '2' else '%d' % h) + ':%02d' % m + ('' if s is None else ':%02d' % s)
        q = pre + lit
        region = (q.find('at ') if 'at ' in pre else len(pre), len(q) - 1)
        cls = '24h|hour-%s' % ('00' if h == 0 else '01-12' if h <= 12 else '13-23')
        check_time(ch, cls, 'en-us', q, ref, (len(pre), len(q) - 1), region, readings(h, m, s, None))
    elif part == '12h':
        h = ch.pick('hour', range(1, 13))
        m = ch.pick('minute', (None, 0, 1, 5, 30, 59))
        marker = ch.pick('marker', [None] + MARKERS)
        pre = ch.pick('prefix', ('at ', 'it is '))
        if marker is None and m is None and pre != 'at ':
            ch.prune()                       # a bare number after a neutral word is not a time expression
        lit = '%d' % h + ('' if m is None else ':%02d' % m) + (marker or '')
        q = pre + lit
        region = (0 if pre == 'at ' else len(pre), len(q) - 1)
        cls = '12h|%s' % ('no-marker' if marker is None else marker.strip().lower().replace('.', ''))
        if h == 12:
            cls += '|twelve'
        check_time(ch, cls, 'en-us', q, ref, (len(pre), len(q) - 1), region, readings(h, m, None, marker))
    elif part == 'oclock':
        h = ch.pick('hour', range(1, 13))
        pre = ch.pick('prefix', ('', 'at ', 'it is '))
        lit = "%d o'clock" % h
        q = pre + lit
        check_time(ch, "oclock", 'en-us', q, ref, (len(pre), len(q) - 1), (0 if pre == 'at ' else len(pre), len(q) - 1),
                   readings(h, None, None, None))
    elif part == 'other-cultures':
        cul = ch.pick('culture', list(OTHER_FMT))
        h = ch.pick('hour', range(24))
        m = ch.pick('minute', CFG['minutes_other'])
        with_particle = ch.pick('particle', (False, True))
        p, fmt, suffix = OTHER_FMT[cul]
        lit = fmt % (h, m)
        pre, post = (p, suffix) if with_particle else ('', '')
        if with_particle and not (p or suffix):
            ch.prune()
        q = pre + lit + post
        exp = readings(h, m, None, None)
        if cul != 'zh-cn' and 1 <= h <= 12:
            # H:MM in continental notation is 24-hour; both "one reading" and "two readings" are acceptable there
            got = dt.run(cul, q, ref)
            n = len(got[0][4]) if len(got) == 1 and got[0][4] else 0
            if n == 1:
                exp = exp[:1]
        check_time(ch, 'other|%s|hour-%s' % (cul, '00' if h == 0 else '01-12' if h <= 12 else '13-23'), cul, q, ref,
                   (len(pre), len(pre) + len(lit) - 1), (0, len(q) - 1), exp)
    else:
        ref = ch.pick('reference', REFS)
        di = ch.pick_index('date', len(date_exprs(ref)))
        h, m, s = ch.pick('time', CFG['times40'])
        marker = ch.pick('marker', (None, 'pm', ' am') if 1 <= h <= 12 else (None,))
        dexpr, ds = date_exprs(ref)[di]
        tl = '%d' % h + ('' if m is None else ':%02d' % m) + ('' if s is None else ':%02d' % s) + (marker or '')
        q = '%s at %s' % (dexpr, tl)
        # history: the same warm model first answers a related query in which a part-of-day word disambiguates the
        # same time text (start from a non-initial state; the answer of the checked query must not change)
        before = ch.pick('history', (None, 'at %s %s evening', '%s morning at %s') if marker is None else (None,))
        if before:
            dt.run('en-us', before % ((tl, dexpr) if before.startswith('at') else (dexpr, tl)), ref)
        exp = readings(h, m, s, marker)
        got = dt.run('en-us', q, ref)
        rec = {'culture': 'en-us', 'query': q, 'reference': ref.isoformat(),
               'expected': ['%s %s' % (d.isoformat(), tval(*r)) for d in ds for r in exp], 'observed': got}
        fam = 'absolute' if dexpr[0].isdigit() else 'bare-weekday' if len(ds) == 2 and ' ' not in dexpr else \
            'month-day-without-year' if len(ds) == 2 else dexpr
        cls = 'date+time|%s|hour-%s%s' % (fam,
                                          '00' if h == 0 else '01-12' if h <= 12 else '13-23',
                                          '|after-part-of-day-query' if before else '')
        rec['history'] = before
        if len(got) != 1 or (got[0][0], got[0][1]) != (0, len(q) - 1):
            ch.fail('%s|%s' % (cls, 'missing' if not got else 'split'), rec)
            return
        s0, e0, text, tn, vals = got[0]
        if tn != 'datetimeV2.datetime' or vals is None:
            ch.fail('%s|%s' % (cls, 'type' if vals is not None else 'resolution-missing'), rec)
        elif sorted(v.get('value') for v in vals) != sorted(rec['expected']):
            ch.fail('%s|%s' % (cls, 'readings' if len(vals) != len(rec['expected']) else 'value'), rec)
        elif any(v.get('type') != 'datetime' or dt.wellformed((s0, e0, text, tn, [v])) for v in vals):
            ch.fail('%s|timex' % cls, rec)
        else:
            ch.ok(case=('en-us', q, ref), outcome=cls, sample=rec if marker else None)


def canary():
    from vmc.explore import Acc, Ch
    acc = Acc()
    check_time(Ch([], acc), 'canary', 'en-us', 'at 15:30', REFS[0], (3, 7), (0, 7), [(15, 31, None)])
    return True if acc.failures else 'oracle accepted a wrong time'
