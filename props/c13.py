"""C13 - sequence entities (IP, GUID, e-mail, URL, hashtag, mention, phone): sound and complete
recognition over exhaustively enumerated literal shapes, against own grammar rules + ipaddress."""
import ipaddress
import itertools
import re

ID = 'C13'
RULE = ('IPv4: for each octet position, every spelling "0".."999" plus zero-padded forms while the other three '
        'octets range over a boundary set; IPv6: every compression (position x length of "::") of 8 hextets over '
        'value backgrounds, every hextet spelling per position, both cases, near-misses; GUID: every hex digit at '
        'every position x 2 backgrounds x 4 layouts x case; e-mail/URL(every listed TLD)/hashtag/mention/phone from '
        'closed grammars; each alone and inside a carrier. Oracle: own octet rule + ipaddress on the resolved value, '
        'exact span, value == text. Non-trivial = an entity was expected and found; distinct = distinct query strings.')
ASSUMPTIONS = ['octets with leading zeros (1-3 digits, value <= 255) are valid because the implementation\'s grammar '
               'and resolver define them so; the statement only requires reported addresses to be valid and to denote '
               'the written address',
               'for near-miss inputs a reported sub-span is accepted when the reported text itself is a valid address '
               'and the value denotes that text (soundness is about what is reported)',
               'the IP model keeps letter case; the other sequence models lower-case (documented normalisation)']
MIN_NONTRIVIAL = 5000
CFG = {}
M = {}


def configure(tier, seed):
    thorough = tier == 'thorough'
    if thorough:
        b = [0, 9, 10, 99, 100, 199, 200, 249, 250, 255]
    else:
        b = [0, 10, 255] + [[9, 99], [100, 199], [200, 249], [250, 1]][seed % 4]   # seed-selected extra block
    spell = [str(i) for i in range(1000)] + ['00', '01', '007', '010', '099', '000', '0255', '0000', '09', '025']
    CFG.update(tier=tier, b=[str(x) for x in b], spell=spell)
    return {'shard_depth': 3, 'progress': True,
            'bounds': {'ipv4_background_octets': b, 'ipv4_octet_spellings': len(spell)},
            'blocks': ['all'] if thorough else ['ipv4 background %r' % b]}


def worker_init():
    import os
    configure(os.environ['VERIF_TIER'], int(os.environ['VERIF_SEED']))
    from recognizers_sequence import SequenceRecognizer
    from recognizers_sequence.resources.base_url import BaseURL
    r = SequenceRecognizer('en-us')
    M['ip'] = r.get_ip_address_model()
    M['guid'] = r.get_guid_model()
    M['email'] = r.get_email_model()
    M['url'] = r.get_url_model()
    M['hashtag'] = r.get_hashtag_model()
    M['mention'] = r.get_mention_model()
    M['phone'] = r.get_phone_number_model()
    M['tlds'] = list(BaseURL.TldList)


CARRIERS = (('', ''), ('ip ', ' here'), ('see ', '.'))


def octet_ok(o):
    return 1 <= len(o) <= 3 and o.isdigit() and int(o) <= 255


def ents(model, q):
    return [(e.start, e.end, e.text, e.type_name, (e.resolution or {}).get('value'), (e.resolution or {}).get('type'))
            for e in model.parse(q)]


def sound_ip(ch, q, got, label):
    """every reported IP entity is a valid address and its value denotes the reported text"""
    for (s, e, text, tn, val, typ) in got:
        ok = True
        why = ''
        if not (0 <= s <= e < len(q)) or q[s:e + 1].strip() != text:
            ok, why = False, 'span'
        elif tn != 'ip':
            ok, why = False, 'type'
        else:
            try:
                if '.' in text and ':' not in text:
                    parts = text.split('.')
                    if len(parts) != 4 or not all(octet_ok(p) for p in parts):
                        raise ValueError('octets')
                    written = ipaddress.IPv4Address('.'.join(str(int(p)) for p in parts))
                else:
                    written = ipaddress.IPv6Address(text)
                if ipaddress.ip_address(val) != written:
                    ok, why = False, 'value'
            except ValueError:
                ok, why = False, 'invalid-address-reported'
        if not ok:
            ch.fail('%s|unsound|%s' % (label, why), {'query': q, 'observed': got})
            return False
    return True


def expect_one(ch, label, model, lit, pre, post, value_check, lower=False):
    q = pre + lit + post
    got = ents(M[model], q)
    want_text = lit.lower() if lower else lit
    if len(got) != 1:
        ch.fail('%s|%s' % (label, 'missing' if not got else 'split'), {'query': q, 'literal': lit, 'observed': got})
        return
    s, e, text, tn, val, typ = got[0]
    if (s, e) != (len(pre), len(pre) + len(lit) - 1) or text != want_text:
        ch.fail('%s|span' % label, {'query': q, 'literal': lit, 'observed': got})
        return
    err = value_check(val, typ)
    if err:
        ch.fail('%s|%s' % (label, err), {'query': q, 'literal': lit, 'observed': got})
        return
    ch.ok(case=q, outcome=label, sample={'query': q, 'entity': got[0]})


HEX_BG = [['1'] * 8, ['0db8', 'a', 'ff', '1', 'ffff', '0', 'abcd', '12'], ['ffff'] * 8]
# every hextet spelling of length 1..4 over one representative per character class: zero, non-zero digit,
# lower-case letter, upper-case letter (340 spellings)
HEXTETS = [''.join(t) for n in range(1, 5) for t in itertools.product('01aF', repeat=n)]
GUID_BG = ['0123456789abcdef0123456789abcdef', 'ffffffffffffffffffffffffffffffff']
PHONE_TEMPLATES = ['(425) 555-01dd', '425-555-0ddd', '+1 425 555 0ddd', '1-425-555-0ddd', '425.555.0ddd',
                   '+44 20 7946 0ddd']


def body(ch):
    part = ch.pick('part', ('first-use', 'ipv4', 'ipv4-near', 'ipv6', 'ipv6-hextet', 'ipv6-near', 'ip-several', 'guid', 'guid-near', 'email', 'url',
                            'hashtag', 'mention', 'phone'))
    if part == 'first-use':
        # the first query a freshly built model answers must not write to the cached model (lazily filled tables make the
        # answer depend on who else is calling at that moment): structural fingerprint before / after, per model
        from vmc import state
        from recognizers_sequence import SequenceRecognizer
        name, q = ch.pick('model', (('ip_address', 'ping 10.0.0.1 or fe80::1'), ('guid', 'id 0123456789abcdef0123456789abcdef'),
                                    ('email', 'mail a@b.com'), ('url', 'see example.com'), ('phone_number', 'call 425-555-0123'),
                                    ('hashtag', 'say #abc'), ('mention', 'hi @abc')))
        cul = ch.pick('culture', ('en-us', 'zh-cn'))
        state.reset_cache()
        m = getattr(SequenceRecognizer(cul), 'get_%s_model' % name)(cul, True)
        before = state.fingerprint(state.cache_roots())
        got = ents(m, q)
        after = state.fingerprint(state.cache_roots())
        d = state.diff_fingerprints(before, after)
        if d['n']:
            ch.fail('first-use-writes|%s|%s' % (name, cul), {'model': name, 'culture': cul, 'query': q, 'state_diff': d, 'observed': got})
        else:
            ch.ok(case=('first-use', name, cul), nontrivial=bool(got), outcome='first-use')
        return
    if part == 'ipv4':
        pos = ch.pick('position', range(4))
        others = ch.pick('others', list(itertools.product(CFG['b'], repeat=3)))
        o = ch.pick('octet', CFG['spell'])
        pre, post = ch.pick('carrier', CARRIERS)
        parts = list(others)
        parts.insert(pos, o)
        lit = '.'.join(parts)
        if octet_ok(o):
            want = ipaddress.IPv4Address('.'.join(str(int(p)) for p in parts))

            def vc(val, typ):
                try:
                    return None if ipaddress.ip_address(val) == want else 'value'
                except ValueError:
                    return 'value-invalid'
            expect_one(ch, 'ipv4', 'ip', lit, pre, post, vc)
        else:
            q = pre + lit + post
            got = ents(M['ip'], q)
            for g in got:
                if g[0] <= len(pre) and g[1] >= len(pre) + len(lit) - 1:
                    ch.fail('ipv4|invalid-accepted', {'query': q, 'observed': got})
                    return
            if sound_ip(ch, q, got, 'ipv4'):
                ch.ok(case=q, nontrivial=False, outcome='ipv4-invalid-%d' % len(got))
    elif part == 'ipv4-near':
        n = ch.pick('groups', (3, 5, 6))
        o = ch.pick('octet', ('0', '1', '10', '255', '256'))
        tail = ch.pick('tail', ('', '.', '.x'))
        pre, post = ch.pick('carrier', CARRIERS)
        q = pre + '.'.join([o] * n) + tail + post
        got = ents(M['ip'], q)
        if n == 3 and got:
            ch.fail('ipv4|three-groups-accepted', {'query': q, 'observed': got})
        elif sound_ip(ch, q, got, 'ipv4-near'):
            ch.ok(case=q, nontrivial=bool(got), outcome='near-%d' % len(got))
    elif part == 'ipv6':
        bg = ch.pick('background', HEX_BG)
        start = ch.pick('ellipsis_start', range(-1, 8))        # -1: exploded form
        length = 0 if start < 0 else ch.pick('ellipsis_len', range(1, 8 - start + 1))
        upper = ch.pick('case', (False, True))
        pre, post = ch.pick('carrier', (('', ''), ('ip ', ' here')))
        if start < 0:
            lit = ':'.join(bg)
            full = list(bg)
        else:
            left, right = bg[:start], bg[start + length:]
            lit = ':'.join(left) + '::' + ':'.join(right)
            full = left + ['0'] * length + right
        if upper:
            lit = lit.upper()
        want = ipaddress.IPv6Address(':'.join(full))

        def vc(val, typ):
            try:
                return None if ipaddress.ip_address(val) == want else 'value'
            except ValueError:
                return 'value-invalid'
        expect_one(ch, 'ipv6', 'ip', lit, pre, post, vc)
    elif part == 'ipv6-hextet':
        pos = ch.pick('position', range(8))
        h = ch.pick('hextet', HEXTETS)
        bg = list(ch.pick('background', HEX_BG[:2]))
        form = ch.pick('form', ('exploded', 'compressed-after', 'compressed-before'))
        bg[pos] = h
        if form == 'exploded':
            lit, full = ':'.join(bg), bg
        elif form == 'compressed-after':
            if pos > 5:
                ch.prune()
            lit = ':'.join(bg[:pos + 1]) + '::' + bg[7]
            full = bg[:pos + 1] + ['0'] * (6 - pos) + [bg[7]]
        else:
            if pos < 2:
                ch.prune()
            lit = bg[0] + '::' + ':'.join(bg[pos:])
            full = [bg[0]] + ['0'] * (pos - 1) + bg[pos:]
        want = ipaddress.IPv6Address(':'.join(full))

        def vc(val, typ):
            try:
                return None if ipaddress.ip_address(val) == want else 'value'
            except ValueError:
                return 'value-invalid'
        expect_one(ch, 'ipv6-hextet', 'ip', lit, '', '', vc)
    elif part == 'ip-several':
        # several addresses in one query, every ordered pair (and triple) of a pool mixing both families and a malformed token
        pool = ['10.0.0.1', '255.255.255.255', '001.02.3.4', 'fe80::1', '::1', '1:2:3:4:5:6:7:8', 'FE06::1::2', '1.2.3.256']
        a = ch.pick('first', pool)
        b = ch.pick('second', pool)
        c = ch.pick('third', [None] + pool[:4])
        sep = ch.pick('separator', (' ', ' via ', ', '))
        lits = [x for x in (a, b, c) if x]
        q = 'route ' + sep.join(lits)
        got = ents(M['ip'], q)
        if not sound_ip(ch, q, got, 'ip-several'):
            return
        pos, want = len('route '), []
        for x in lits:
            valid = True
            try:
                if ':' in x:
                    ipaddress.IPv6Address(x)
                else:
                    valid = all(octet_ok(o) for o in x.split('.')) and x.count('.') == 3
            except ValueError:
                valid = False
            if valid:
                want.append((pos, pos + len(x) - 1))
            pos += len(x) + len(sep)
        missing = [w for w in want if w not in [(g[0], g[1]) for g in got]]
        if missing:
            ch.fail('ip-several|valid-address-missed|%s' % ('v6-before-v4' if ':' in a and '.' in (b + (c or '')) and ':' not in b else 'other'),
                    {'query': q, 'expected_spans': want, 'observed': got})
        else:
            ch.ok(case=q, nontrivial=len(want) >= 2, outcome='several-%d' % len(want))
    elif part == 'ipv6-near':
        q = ch.pick('query', ('1:2:3:4:5:6:7:8:9', '1::2::3', '1:2:3:4:5:6:7', ':::', '1:::2', '12345::1', 'g::1',
                              '1:2:3:4:5:6:7::8:9', '::1::', 'x::1', '1::x', '1:2:3:4:5:6:7:8::'))
        pre, post = ch.pick('carrier', (('', ''), ('ip ', ' here')))
        q = pre + q + post
        got = ents(M['ip'], q)
        if sound_ip(ch, q, got, 'ipv6-near'):
            ch.ok(case=q, nontrivial=bool(got), outcome='near6-%d' % len(got))
    elif part == 'guid':
        bg = ch.pick('background', GUID_BG)
        pos = ch.pick('position', range(32))
        digit = ch.pick('digit', '0123456789abcdef')
        layout = ch.pick('layout', ('dashed', 'braced', 'plain32', 'urn'))
        upper = ch.pick('case', (False, True))
        pre, post = ch.pick('carrier', (('', ''), ('see ', ' now')))
        hx = bg[:pos] + digit + bg[pos + 1:]
        dashed = '-'.join((hx[0:8], hx[8:12], hx[12:16], hx[16:20], hx[20:32]))
        lit = {'dashed': dashed, 'braced': '{' + dashed + '}', 'plain32': hx, 'urn': 'urn:uuid:' + dashed}[layout]
        if upper:
            lit = lit.upper()
        expect_one(ch, 'guid-' + layout, 'guid', lit, pre, post,
                   lambda val, typ: None if val == lit.lower() else 'value', lower=True)
    elif part == 'guid-near':
        q = ch.pick('query', ('0123456789abcdef0123456789abcde', '0123456789abcdef0123456789abcdeg',
                              '01234567-89ab-cdef-0123-456789abcde', '01234567-89ab-cdef-0123456789abcdef',
                              '{01234567-89ab-cdef-0123-456789abcdeg}', '0123456789abcdef0123456789abcdef0'))
        got = ents(M['guid'], q)
        bad = [g for g in got if not re.fullmatch(r'[{]?(urn:uuid:)?[0-9a-f]{8}(-?[0-9a-f]{4}){3}-?[0-9a-f]{12}[}]?', g[2])]
        if bad:
            ch.fail('guid|unsound', {'query': q, 'observed': got})
        else:
            ch.ok(case=q, nontrivial=False, outcome='guid-near-%d' % len(got))
    elif part == 'email':
        local = ch.pick('local', ('a', 'john.doe', 'j_d-9', 'x+y', 'A.B'))
        dom = ch.pick('domain', ('example', 'mail.example', 'a-b', 'x1'))
        tld = ch.pick('tld', ('com', 'org', 'io', 'co.uk', 'museum'))
        pre, post = ch.pick('carrier', (('', ''), ('mail ', ' now'), ('to: ', ',')))
        lit = '%s@%s.%s' % (local, dom, tld)
        expect_one(ch, 'email', 'email', lit, pre, post, lambda val, typ: None if val == lit.lower() else 'value', lower=True)
    elif part == 'url':
        tld = ch.pick('tld', M['tlds'])
        host = ch.pick('host', ('example', 'my-site', 'a1.b2'))
        form = ch.pick('form', ('bare', 'http', 'https-path', 'path'))
        pre, post = ch.pick('carrier', (('', ''), ('see ', ' now')))
        base = '%s.%s' % (host, tld)
        lit = {'bare': base, 'http': 'http://' + base, 'https-path': 'https://' + base + '/a/b?x=1',
               'path': base + '/path'}[form]
        expect_one(ch, 'url', 'url', lit, pre, post, lambda val, typ: None if val == lit.lower() else 'value', lower=True)
    elif part in ('hashtag', 'mention'):
        word = ch.pick('word', ('a', 'abc', 'a_b', '123', 'x9_Y', 'Hello_World2'))
        pre, post = ch.pick('carrier', (('', ''), ('say ', ' now'), ('', ' !'), ('so ', '')))
        lit = ('#' if part == 'hashtag' else '@') + word
        expect_one(ch, part, part, lit, pre, post, lambda val, typ: None if val == lit.lower() else 'value', lower=True)
    elif part == 'phone':
        tmpl = ch.pick('template', PHONE_TEMPLATES)
        n = tmpl.count('d')
        digits = ch.pick('digits', ['%0*d' % (n, i) for i in range(10 ** n)])
        pre, post = ch.pick('carrier', (('', ''), ('call ', ' now')))
        it = iter(digits)
        lit = ''.join(next(it) if c == 'd' else c for c in tmpl)
        expect_one(ch, 'phone', 'phone', lit, pre, post, lambda val, typ: None if val == lit else 'value')


def canary():
    from vmc.explore import Acc, Ch
    acc = Acc()
    expect_one(Ch([], acc), 'canary', 'ip', '1.2.3.4', '', '',
               lambda val, typ: None if val == '1.2.3.5' else 'value')
    return True if acc.failures else 'oracle accepted a wrong value'
