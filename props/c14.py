"""C14 - TIMEX parse/format round trip: every string of the datatype's grammar with fields from
structured boundary sets, through the real Timex parser and formatter, against an independent
canonical formatter."""
import re
from datetime import datetime, timedelta

ID = 'C14'
RULE = ('every TIMEX string of the listed grammar forms with year/month/day/week/hour/minute/second/amount fields '
        'drawn from complete boundary sets (all months, all days 01-31, all weeks 01-53, all 86,400 times of day), '
        'plus from_date/from_date_time/from_time over every day of 6 years x 40 times. Oracle: parse->format->parse '
        'keeps all 20 fields, format is idempotent, canonical strings come back identical. Non-trivial = the parse '
        'set at least one field; distinct = distinct TIMEX strings (distinct leaves by construction).')
ASSUMPTIONS = ['canonical form = the oracle formatter in this driver (zero-padded fields, T<HH> when minutes and seconds '
               'are zero, T<HH:MM> when seconds are zero, amounts printed as Decimal)',
               '(start,end,duration) triples are outside the forms listed in the statement; only definite start + '
               'day/week durations (the forms the package itself produces) are included']
MIN_NONTRIVIAL = 1000

FIELDS = ('now', 'years', 'months', 'weeks', 'days', 'hours', 'minutes', 'seconds', 'year', 'month', 'day_of_month',
          'day_of_week', 'season', 'week_of_year', 'weekend', 'week_of_month', 'part_of_day', 'hour', 'minute', 'second')
CFG = {}
T = {}


def configure(tier, seed):
    thorough = tier == 'thorough'
    base_years = [1, 999, 1000, 1899, 1900, 1999, 2000, 2020, 9999]
    if thorough:
        years = sorted(set(base_years) | set(range(1, 10000, 7)))
    else:
        # seed-selected extra block: one residue class of years mod 97, fully enumerated
        years = sorted(set(base_years) | set(range(1 + seed % 97, 10000, 97)))
    times40 = []
    for h in (0, 1, 11, 12, 13, 23, 24):
        for m, s in ((None, None), (0, None), (0, 0), (1, None), (30, 0), (59, 59)):
            if m is None:
                times40.append((h, None, None))
            else:
                times40.append((h, m, s))
    CFG.update(tier=tier, years=years, times40=times40,
               amounts=['0', '0.5', '1', '1.5', '2', '10', '100', '.5', '01', '5000', '2.50', '0.6666666666666666', '1234567890123456',
                        '123456789012345678901234567890.5'],
               from_years=[1, 1900, 1999, 2000, 2020, 9999])
    return {'shard_depth': 2, 'progress': True,
            'bounds': {'years': len(years), 'months': 12, 'days': '01-31', 'weeks': '01-53', 'times_alone': 'all 86400+1440+24',
                       'times_with_date': len(times40), 'amounts': CFG['amounts'], 'from_years': CFG['from_years']},
            'blocks': ['all'] if thorough else ['years = boundaries + {y : y mod 97 == %d}' % (1 + seed % 97)]}


def worker_init():
    import os
    configure(os.environ['VERIF_TIER'], int(os.environ['VERIF_SEED']))
    from datatypes_timex_expression import Timex, Time
    T['Timex'] = Timex
    T['Time'] = Time


def fields(p):
    out = []
    for f in FIELDS:
        v = getattr(p, f)
        if f == 'weekend' and not v:
            v = False
        out.append(v)
    return tuple(out)


def fmt_time(h, m, s):
    """canonical time; (m, s) None means absent in the source string"""
    m = m or 0
    s = s or 0
    if m == 0 and s == 0:
        return 'T%02d' % h
    if s == 0:
        return 'T%02d:%02d' % (h, m)
    return 'T%02d:%02d:%02d' % (h, m, s)


def src_time(h, m, s):
    if m is None:
        return 'T%02d' % h
    if s is None:
        return 'T%02d:%02d' % (h, m)
    return 'T%02d:%02d:%02d' % (h, m, s)


def shape(s):
    return re.sub(r'\d', 'd', s if isinstance(s, str) else repr(s))[:40]


def check(ch, form, s, canonical):
    """canonical: the canonical spelling of s (== s when s is canonical)."""
    Timex = T['Timex']
    try:
        p = Timex(s)
        fp = fields(p)
        f = p.timex_value()
        p2 = Timex(f)
        f2 = p2.timex_value()
    except Exception as e:
        ch.fail('%s|exception|%s' % (form, type(e).__name__), {'timex': s, 'error': repr(e)})
        return
    nontrivial = any(v is not None and v is not False for v in fp)
    if not nontrivial:
        ch.fail('%s|not-parsed' % form, {'timex': s, 'fields': fp})
        return
    if fields(p2) != fp:
        diff = [(n, a, b) for n, a, b in zip(FIELDS, fp, fields(p2)) if a != b]
        ch.fail('%s|fields-lost|%s' % (form, shape(f)), {'timex': s, 'formatted': f, 'field_diff': diff})
        return
    if f2 != f:
        ch.fail('%s|not-idempotent|%s' % (form, shape(f)), {'timex': s, 'formatted': f, 'formatted_twice': f2})
        return
    if f != canonical:
        ch.fail('%s|not-canonical|%s' % (form, shape(f)), {'timex': s, 'formatted': f, 'expected': canonical})
        return
    ch.ok(outcome=form, sample={'timex': s, 'formatted': f, 'form': form} if s != f else None)


SEASONS = ('SP', 'SU', 'FA', 'WI')
PODS = ('DT', 'NI', 'MO', 'AF', 'EV')
MONTHS = range(1, 13)
DAYS = range(1, 32)


def body(ch):
    form = ch.pick('form', ('date', 'date_open_year', 'weekday', 'year', 'year_month', 'season', 'year_season', 'week',
                            'weekend', 'open_month', 'week_of_month', 'week_of_month_day', 'time', 'part_of_day',
                            'duration', 'present', 'date+time', 'open_date+time', 'weekday+time', 'date+part_of_day',
                            'triple', 'from_date', 'from_date_time', 'from_time', 'two-threads'))
    if form == 'two-threads':
        # the datatype under concurrent use: two threads each parse + format one canonical TIMEX under the controlled
        # scheduler (every library call is a scheduling point); every schedule with <= 1 preemption (<= 2 for the first
        # pair); each thread must get its own string back
        import os
        from vmc import env, sched
        pool = ['2021-03', 'T17:30', 'P2W', 'XXXX-WXX-3', '2017-09-27T16:45:30', 'XXXX-05-29', '2020-W05-WE', 'PT45M', 'SU', 'PRESENT_REF']
        a = ch.pick('timex_a', pool)
        ch.shard()
        b = ch.pick('timex_b', pool)
        lib = os.path.join(env.REPO, 'Python', 'libraries')
        Timex = T['Timex']
        bodies = [lambda s=a: Timex(s).timex_value(), lambda s=b: Timex(s).timex_value()]
        key = (a, b)
        if key not in T.setdefault('counts', {}):
            cs = []
            for first in (0, 1):
                ex = sched.run_plan(lib, 'calls', [(first, None), (1 - first, None)], bodies)
                cs.append(ex.points[first])
            T['counts'][key] = cs
        plans = sched.plans_up_to(2 if (a, b) == (pool[0], pool[1]) else 1, T['counts'][key])
        plan = ch.pick('plan', plans)
        ex = sched.run_plan(lib, 'calls', plan, bodies)
        ch.tally('schedules')
        for tid, s in enumerate((a, b)):
            got = ex.results[tid] if ex.errors[tid] is None else 'EXC ' + ex.errors[tid]
            if got != s:
                ch.fail('two-threads|%s' % ('exception' if ex.errors[tid] else 'wrong-string'),
                        {'timex': [a, b], 'plan': plan, 'thread': tid, 'observed': got, 'expected': s})
                return
        ch.ok(outcome='two-threads', evals=2)
        return
    if form in ('date_open_year', 'weekday', 'season', 'open_month', 'week_of_month', 'week_of_month_day', 'part_of_day',
                'duration', 'present'):
        ch.shard()      # small forms: the whole sub-tree is one sequential history on one warm process
    if form == 'date':
        y = ch.pick('year', CFG['years'])
        ch.shard()
        mo = ch.pick('month', MONTHS)
        d = ch.pick('day', DAYS)
        s = '%04d-%02d-%02d' % (y, mo, d)
        check(ch, form, s, s)
    elif form == 'date_open_year':
        mo = ch.pick('month', MONTHS)
        d = ch.pick('day', DAYS)
        s = 'XXXX-%02d-%02d' % (mo, d)
        check(ch, form, s, s)
    elif form == 'weekday':
        # the datatype's pattern accepts any digit; 0, 8 and 9 are no weekdays and get their own finding class
        wd = ch.pick('weekday', range(0, 10))
        s = 'XXXX-WXX-%d' % wd
        check(ch, form if 1 <= wd <= 7 else 'weekday-digit-%d' % wd, s, s)
    elif form == 'year':
        s = '%04d' % ch.pick('year', CFG['years'])
        check(ch, form, s, s)
    elif form == 'year_month':
        y = ch.pick('year', CFG['years'])
        s = '%04d-%02d' % (y, ch.pick('month', MONTHS))
        check(ch, form, s, s)
    elif form == 'season':
        s = ch.pick('season', SEASONS)
        check(ch, form, s, s)
    elif form == 'year_season':
        y = ch.pick('year', CFG['years'])
        s = '%04d-%s' % (y, ch.pick('season', SEASONS))
        check(ch, form, s, s)
    elif form in ('week', 'weekend'):
        y = ch.pick('year', CFG['years'])
        w = ch.pick('week', range(1, 54))
        s = '%04d-W%02d%s' % (y, w, '-WE' if form == 'weekend' else '')
        check(ch, form, s, s)
    elif form == 'open_month':
        s = 'XXXX-%02d' % ch.pick('month', MONTHS)
        check(ch, form, s, s)
    elif form == 'week_of_month':
        mo = ch.pick('month', MONTHS)
        s = 'XXXX-%02d-W%02d' % (mo, ch.pick('week', range(1, 6)))
        check(ch, form, s, s)
    elif form == 'week_of_month_day':
        mo = ch.pick('month', MONTHS)
        w = ch.pick('week', range(1, 6))
        s = 'XXXX-%02d-WXX-%d-%d' % (mo, w, ch.pick('weekday', range(1, 8)))
        check(ch, form, s, s)
    elif form == 'time':
        h = ch.pick('hour', range(0, 25))
        ch.shard()
        m = ch.pick('minute', [None] + list(range(60)))
        sec = None if m is None else ch.pick('second', [None] + list(range(60)))
        check(ch, form, src_time(h, m, sec), fmt_time(h, m, sec))
    elif form == 'part_of_day':
        s = 'T' + ch.pick('part', PODS)
        check(ch, form, s, s)
    elif form == 'duration':
        unit = ch.pick('unit', ('Y', 'M', 'W', 'D', 'TH', 'TM', 'TS'))
        a = ch.pick('amount', CFG['amounts'])
        from decimal import Decimal, localcontext
        s = 'P%s%s%s' % ('T' if unit[0] == 'T' else '', a, unit[-1])
        canon = 'P%s%s%s' % ('T' if unit[0] == 'T' else '', Decimal(a), unit[-1])
        # the ambient decimal context is an environment answer the datatype must not depend on (the number package sets the
        # importing thread's precision to 15)
        prec = ch.pick('decimal_context_precision', (28, 15, 6))
        with localcontext() as ctx:
            ctx.prec = prec
            check(ch, form if prec == 28 else form + '-under-prec-%d' % prec, s, canon)
    elif form == 'present':
        check(ch, form, 'PRESENT_REF', 'PRESENT_REF')
    elif form in ('date+time', 'date+part_of_day'):
        y = ch.pick('year', CFG['years'])
        ch.shard()
        mo = ch.pick('month', MONTHS)
        d = ch.pick('day', (1, 2, 15, 28, 29, 30, 31))
        ds = '%04d-%02d-%02d' % (y, mo, d)
        if form == 'date+time':
            h, m, sec = ch.pick('time', CFG['times40'])
            check(ch, form, ds + src_time(h, m, sec), ds + fmt_time(h, m, sec))
        else:
            pod = ch.pick('part', PODS)
            check(ch, form, ds + 'T' + pod, ds + 'T' + pod)
    elif form == 'open_date+time':
        mo = ch.pick('month', MONTHS)
        d = ch.pick('day', DAYS)
        h, m, sec = ch.pick('time', CFG['times40'])
        ds = 'XXXX-%02d-%02d' % (mo, d)
        check(ch, form, ds + src_time(h, m, sec), ds + fmt_time(h, m, sec))
    elif form == 'weekday+time':
        wd = ch.pick('weekday', range(1, 8))
        h = ch.pick('hour', range(0, 25))
        m = ch.pick('minute', [None] + list(range(60)))
        sec = None if m is None else ch.pick('second', (None, 0, 1, 59))
        ds = 'XXXX-WXX-%d' % wd
        check(ch, form, ds + src_time(h, m, sec), ds + fmt_time(h, m, sec))
    elif form == 'triple':
        y = ch.pick('year', [yy for yy in CFG['years'] if yy < 9999][:40])
        mo = ch.pick('month', MONTHS)
        d = ch.pick('day', (1, 15, 28))
        unit, n = ch.pick('duration', (('D', 1), ('D', 3), ('D', 31), ('W', 1), ('W', 2), ('D', 365)))
        start = datetime(y, mo, d)
        end = start + timedelta(days=n * (7 if unit == 'W' else 1))
        s = '(%04d-%02d-%02d,%04d-%02d-%02d,P%d%s)' % (y, mo, d, end.year, end.month, end.day, n, unit)
        check(ch, form, s, s)
    elif form == 'from_date' or form == 'from_date_time':
        y = ch.pick('year', CFG['from_years'])
        ch.shard()
        doy = ch.pick('day_of_year', range(366))
        if y == 9999 and doy >= 365:
            ch.prune()
        dt = datetime(y, 1, 1) + timedelta(days=doy)
        if dt.year != y:
            ch.prune()
        if form == 'from_date':
            h, m, sec = ch.pick('time', ((0, 0, 0), (23, 59, 59)))
            dt = dt.replace(hour=h, minute=m, second=sec)
            got = T['Timex'].from_date(dt).timex_value()
            exp = '%04d-%02d-%02d' % (dt.year, dt.month, dt.day)
        else:
            h, m, sec = ch.pick('time', CFG['times40'])
            if h == 24:
                ch.prune()
            dt = dt.replace(hour=h, minute=m or 0, second=sec or 0)
            got = T['Timex'].from_date_time(dt).timex_value()
            exp = '%04d-%02d-%02d' % (dt.year, dt.month, dt.day) + fmt_time(h, m, sec)
        if got != exp:
            ch.fail('%s|value|%s' % (form, shape(got)), {'datetime': dt.isoformat(), 'observed': got, 'expected': exp})
        else:
            ch.ok(outcome=form)
    elif form == 'from_time':
        h = ch.pick('hour', range(24))
        m = ch.pick('minute', range(60))
        sec = ch.pick('second', range(60))
        got = T['Timex'].from_time(T['Time'](h, m, sec)).timex_value()
        exp = fmt_time(h, m, sec)
        if got != exp:
            ch.fail('from_time|value|%s' % shape(got), {'time': (h, m, sec), 'observed': got, 'expected': exp})
        else:
            ch.ok(outcome=form)


def canary():
    from vmc.explore import Acc, Ch
    acc = Acc()
    check(Ch([], acc), 'canary', 'T08:30', 'T08:30:00')     # wrong canonical expectation must be rejected
    return True if acc.failures else 'oracle accepted a wrong canonical form'
