"""C06 - absolute calendar dates are recognised exactly, whatever the reference date."""
from datetime import date, datetime, timedelta

from oracles import dt

ID = 'C06'
RULE = ('dates = every day of seed-rotated full years out of {1900,1999,2000,2016,2020,2099} plus, for every year 1900-2099 '
        '(other cultures: every 4th), Jan 1 / Feb 28 / Feb 29 / Mar 1 / Dec 31 / one day <= 12 different from the month; x '
        'every layout of the culture (English 12, others ISO + numeric / and - in the culture order + month-name) x carriers x '
        'reference datetimes from {1950-01-01, 2016-11-07 12:00, 2020-02-29 12:00, 2090-12-31 23:59:59}; each leaf is parsed '
        'under >= 2 references and the results must be identical. Non-trivial = the date entity was found with the right '
        'TIMEX; distinct = distinct (culture, query) pairs.')
ASSUMPTIONS = ['dotted numeric layouts and two-digit years are not "fully specified ... in the culture\'s supported layouts" and '
               'are excluded (English dotted dates are day-first by design)',
               'month names and numeric order per culture come from a table in oracles/dt.py, not from the library']
MIN_NONTRIVIAL = 2000
CFG = {}

REFS = [datetime(1950, 1, 1, 0, 0, 0), datetime(2016, 11, 7, 12, 0, 0), datetime(2020, 2, 29, 12, 0, 0),
        datetime(2090, 12, 31, 23, 59, 59)]
FULL_YEARS = [2016, 2000, 1900, 2099, 1999, 2020]

EN_LAYOUTS = ['iso', 'm/d/y', 'mm/dd/yyyy', 'm-d-y', 'y/m/d', 'Month d, y', 'Month dth, y', 'Mon d y', 'd Month y',
              'dth of Month y', 'd Mon, y', 'Month d y']
OTHER_LAYOUTS = ['iso', 'd/m/y', 'd-m-y', 'name']


def boundary_days(y):
    out = [date(y, 1, 1), date(y, 2, 28), date(y, 3, 1), date(y, 12, 31)]
    if y % 4 == 0 and (y % 100 != 0 or y % 400 == 0):
        out.append(date(y, 2, 29))
    m = 1 + y % 12
    d = 1 + (y // 12) % 12
    if d == m:
        d = d % 12 + 1
    out.append(date(y, m, d))
    return out


def configure(tier, seed):
    thorough = tier == 'thorough'
    full = FULL_YEARS if thorough else [FULL_YEARS[seed % 6]]
    en = []
    for y in full:
        d = date(y, 1, 1)
        while d.year == y:
            en.append(d)
            d += timedelta(days=1)
    other = list(en[:366]) if not thorough else list(en)
    for y in range(1900, 2100):
        en.extend(boundary_days(y))
        if thorough or y % 8 == seed % 8:
            other.extend(boundary_days(y))
    en = sorted(set(en))
    other = sorted(set(other))
    bset = set()
    for y in range(1900, 2100):
        bset.update(boundary_days(y))
    CFG.update(tier=tier, seed=seed, en_dates=en, other_dates=other, nrefs=4 if thorough else 2, chunk=60, boundary=bset)
    return {'shard_depth': 99, 'progress': True, 'min_nontrivial': 2000,
            'bounds': {'english_dates': len(en), 'other_culture_dates': len(other), 'full_years': full,
                       'references_per_leaf': CFG['nrefs'], 'english_layouts': EN_LAYOUTS, 'other_layouts': OTHER_LAYOUTS},
            'blocks': ['all'] if thorough else ['full years %r' % full, 'other-culture boundary years = %d mod 8' % (seed % 8)]}


def worker_init():
    import os
    configure(os.environ['VERIF_TIER'], int(os.environ['VERIF_SEED']))


def render(cul, layout, d):
    y, m, dd = d.year, d.month, d.day
    if layout == 'iso':
        return '%04d-%02d-%02d' % (y, m, dd)
    if cul == 'en-us':
        name, ab = dt.MONTHS['en-us'][m - 1], dt.EN_ABBR[m - 1]
        return {
            'm/d/y': '%d/%d/%d' % (m, dd, y), 'mm/dd/yyyy': '%02d/%02d/%04d' % (m, dd, y), 'm-d-y': '%d-%d-%d' % (m, dd, y),
            'y/m/d': '%d/%d/%d' % (y, m, dd), 'Month d, y': '%s %d, %d' % (name, dd, y),
            'Month dth, y': '%s %s, %d' % (name, dt.ordinal_en(dd), y), 'Mon d y': '%s %d %d' % (ab, dd, y),
            'd Month y': '%d %s %d' % (dd, name, y), 'dth of Month y': '%s of %s %d' % (dt.ordinal_en(dd), name, y),
            'd Mon, y': '%d %s, %d' % (dd, ab, y), 'Month d y': '%s %d %d' % (name, dd, y)}[layout]
    if cul == 'zh-cn':
        return {'d/m/y': '%d/%d/%d' % (y, m, dd), 'd-m-y': '%d-%d-%d' % (y, m, dd),
                'name': '%d年%d月%d日' % (y, m, dd)}[layout]
    name = dt.MONTHS[cul][m - 1]
    if layout == 'd/m/y':
        return '%d/%d/%d' % (dd, m, y)
    if layout == 'd-m-y':
        return '%d-%d-%d' % (dd, m, y)
    if cul in ('es-es', 'pt-br'):
        return '%d de %s de %d' % (dd, name, y)
    if cul == 'de-de':
        return '%d. %s %d' % (dd, name, y)
    return '%d %s %d' % (dd, name, y)


_CHUNKS = {}


def chunks_for(cul, layout):
    """Dates of one (culture, layout) packed into shards so that literals whose digit strings coincide
    (1/11/2010 vs 11/1/2010) are parsed one after the other by the same warm model: two keys forced to collide."""
    key = (cul, layout)
    if key not in _CHUNKS:
        dates = CFG['en_dates'] if cul == 'en-us' else CFG['other_dates']
        groups = {}
        for d in dates:
            digits = ''.join(c for c in render(cul, layout, d) if c.isdigit())
            groups.setdefault((''.join(sorted(digits)), d.year), []).append(d)
        out, cur = [], []
        for k in sorted(groups):
            cur.extend(groups[k])
            if len(cur) >= CFG['chunk']:
                out.append(cur)
                cur = []
        if cur:
            out.append(cur)
        _CHUNKS[key] = out
    return _CHUNKS[key]


def build(ch):
    cul = ch.pick('culture', dt.CULTURES)
    layout = ch.pick('layout', EN_LAYOUTS if cul == 'en-us' else OTHER_LAYOUTS)
    chunks = chunks_for(cul, layout)
    ci = ch.pick_index('chunk', len(chunks))
    ch.shard()
    d = ch.pick('date', chunks[ci])
    with_carrier = CFG['tier'] == 'thorough' or (cul == 'en-us' and d in CFG['boundary'])
    pre, post = ch.pick('carrier', (('', ''), dt.CARRIER[cul]) if with_carrier else (('', ''),))
    lit = render(cul, layout, d)
    i0 = (d.toordinal() + CFG['seed']) % 4
    refs = [REFS[(i0 + k) % 4] for k in range(CFG['nrefs'])]
    return {'culture': cul, 'layout': layout, 'date': d, 'literal': lit, 'query': pre + lit + post, 'pre': pre, 'refs': refs,
            'iso': d.isoformat()}


def first_use(ch):
    """The first date a freshly built model parses must not write to the cached model (lazily filled tables are what
    makes a result depend on who else is calling): structural fingerprint before and after, per culture."""
    from vmc import state
    cul = ch.pick('culture', dt.CULTURES)
    ch.shard()
    state.reset_cache()
    dt._MODELS.clear()
    dt.run(cul, '', REFS[1])                                   # construct, recognise nothing
    before = state.fingerprint(state.cache_roots())
    got = dt.run(cul, render(cul, 'iso', date(2055, 4, 26)), REFS[1])
    after = state.fingerprint(state.cache_roots())
    d = state.diff_fingerprints(before, after)
    dt._MODELS.clear()
    state.reset_cache()
    if d['n']:
        ch.fail('%s|first-use-writes-to-the-cached-model' % cul, {'culture': cul, 'state_diff': d, 'observed': got})
    else:
        ch.ok(case=('first-use', cul), outcome='first-use', sample={'culture': cul, 'fingerprinted_paths': len(after)})


def body(ch):
    if ch.pick('part', ('dates', 'first-use')) == 'first-use':
        return first_use(ch)
    c = build(ch)
    cul, q, iso = c['culture'], c['query'], c['iso']
    outs = [dt.run(cul, q, r) for r in c['refs']]
    cls = '%s|%s%s' % (cul, c['layout'], '|carrier' if c['pre'] else '')
    rec = {'culture': cul, 'query': q, 'references': [r.isoformat() for r in c['refs']], 'expected': iso}
    for o in outs[1:]:
        if o != outs[0]:
            rec['observed'] = outs
            ch.fail('%s|depends-on-reference' % cls, rec, evals=len(outs))
            return
    got = outs[0]
    rec['observed'] = got
    want_span = (len(c['pre']), len(c['pre']) + len(c['literal']) - 1)
    # the entity may absorb a determiner of the carrier ('il 10/10/2000' in Italian); what C06 fixes is the value of the
    # entity that covers the literal, so the span must cover the literal and stay inside carrier prefix + literal
    hit = [g for g in got if g[0] <= want_span[0] and g[1] == want_span[1]]
    if len(got) != 1 or not hit:
        kind = 'missing' if not got else ('split' if not hit else 'extra-entity')
        ch.fail('%s|%s' % (cls, kind), rec, evals=len(outs))
        return
    s, e, text, tn, vals = hit[0]
    if tn != 'datetimeV2.date' or vals != [{'timex': iso, 'type': 'date', 'value': iso}]:
        kind = 'type' if tn != 'datetimeV2.date' else 'value'
        if kind == 'value' and vals and len(vals) == 1 and vals[0].get('value') == iso:
            kind = 'timex'
        ch.fail('%s|%s' % (cls, kind), rec, evals=len(outs))
        return
    ch.ok(case=(cul, q), outcome=cls, evals=len(outs),
          sample={'culture': cul, 'query': q, 'references': rec['references'], 'entity': got[0]} if c['pre'] else None)


def canary():
    from vmc.explore import Acc, Ch
    got = dt.run('en-us', '2016-11-07', REFS[0])
    if not got or got[0][4] != [{'timex': '2016-11-07', 'type': 'date', 'value': '2016-11-07'}]:
        return 'canary precondition failed: %r' % (got,)
    return True if got[0][4] != [{'timex': '2016-11-08', 'type': 'date', 'value': '2016-11-08'}] else 'oracle cannot fail'
