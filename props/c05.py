"""C05 - every listed unit spelling maps to its canonical unit and keeps the number; compound
currencies resolve to N + M/ratio.  The space is the set of (model, culture, unit, spelling) entries of
the tables *as wired at run time* into each registered model's extractor configuration."""
import re

from oracles import registry

ID = 'C05'
RULE = ('for every registered number-with-unit model: every (unit, spelling) of the suffix and prefix tables of its extractor '
        'configurations x numerals {3, 25, decimal 2.5 in the culture notation} (quick: one numeral, seed-rotated; plus the boundary numeral 0, alone) x {alone, '
        'carrier}; for every (main unit, fractional unit) pair linked by CurrencyFractionMapping that has spellings in the culture x '
        '4 amounts x {and-connector, none}. Oracle: one entity over numeral+unit, value == number model on the numeral, unit in '
        'the canonical names listing that spelling, isoCurrency from the culture table; compound value == N + M/ratio. '
        'Non-trivial = entity found and right; distinct = distinct (model, culture, query).')
ASSUMPTIONS = ['a spelling listed under several units may resolve to any unit that lists it (first-binding-wins is accepted)',
               'spacing between numeral and unit is not prescribed by the statement: "3 kg"/"3kg" and "$3"/"$ 3" are both tried and '
               'either may succeed',
               'the tables themselves are the given of this property (their agreement with the YAML is C18)']
MIN_NONTRIVIAL = 3000
CFG = {}
S = {}
CARRIER = {'en-us': ('we need ', ' for it'), 'zh-cn': ('共', '左右'), 'default': ('total ', ' .')}
CONNECT = {'en-us': ' and ', 'es-es': ' y ', 'es-mx': ' y ', 'fr-fr': ' et ', 'pt-br': ' e ', 'nl-nl': ' en ', 'de-de': ' und ',
           'it-it': ' e ', 'zh-cn': ''}
NUMERALS = ['3', '25', '2.5']
DECIMAL_COMMA = ('es-es', 'fr-fr', 'pt-br', 'nl-nl', 'de-de', 'it-it')
NUM_MODEL = {}


def configure(tier, seed):
    thorough = tier == 'thorough'
    CFG.update(tier=tier, seed=seed, numerals=NUMERALS if thorough else [NUMERALS[seed % 2], '2.5'],
               currency_cultures=None if thorough else ['en-us', 'zh-cn', 'fr-fr', ['es-es', 'pt-br', 'nl-nl', 'de-de', 'it-it', 'es-mx'][seed % 6]])
    return {'shard_depth': 99, 'progress': True,
            'bounds': {'numerals': CFG['numerals'], 'currency_cultures': CFG['currency_cultures'] or 'all', 'amounts': [(1, 1), (3, 50), (10, 5), (1, 99), (0, 50), (3, 0)]},
            'blocks': ['all'] if thorough else ['numerals %r' % CFG['numerals'], 'currency cultures %r' % CFG['currency_cultures']]}


def worker_init():
    import os
    configure(os.environ['VERIF_TIER'], int(os.environ['VERIF_SEED']))
    entries = {}          # (model type, culture) -> [(kind, unit, spelling)]
    listing = {}          # (model type, culture, lower spelling) -> set(units)
    compounds = {}
    for rec, mt, cul in registry.registered():
        if rec != 'NumberWithUnit':
            continue
        m = registry.get_model(rec, mt, cul)
        rows = []
        for item in m.extractor_parser:
            cfg = item.extractor.config
            for kind, table in (('suffix', getattr(cfg, 'suffix_list', None) or {}), ('prefix', getattr(cfg, 'prefix_list', None) or {})):
                for unit, spellings in table.items():
                    for sp in [x for x in spellings.split('|') if x.strip()]:
                        rows.append((kind, unit, sp))
                        listing.setdefault((mt, cul, sp.lower()), set()).add(unit)
                        listing.setdefault((mt, cul, sp), set()).add(unit)
            pc = getattr(item.parser, 'config', None)
            merged = type(item.parser).__name__ == 'BaseMergedUnitParser'     # the currency-aware parser (ISO, compounds)
            if mt == 'CurrencyModel' and pc is not None and merged and hasattr(pc, 'currency_name_to_iso_code_map'):
                S.setdefault(('iso', cul), {}).update(dict(pc.currency_name_to_iso_code_map))
            if mt == 'CurrencyModel' and not merged:
                for kind, table in (('suffix', getattr(cfg, 'suffix_list', None) or {}), ('prefix', getattr(cfg, 'prefix_list', None) or {})):
                    for unit in table:
                        S.setdefault(('no_iso', cul), set()).add(unit)
            if mt == 'CurrencyModel' and pc is not None and merged and hasattr(pc, 'currency_fraction_mapping'):
                iso_of = dict(pc.currency_name_to_iso_code_map)
                frac_code = dict(pc.currency_fraction_code_list)
                frac_ratio = dict(pc.currency_fraction_num_map)
                mapping = dict(pc.currency_fraction_mapping)
                suffix = getattr(cfg, 'suffix_list', {}) or {}
                pairs = []
                for unit, iso in sorted(iso_of.items()):
                    codes = (mapping.get(iso) or '').split('|')
                    if unit not in suffix or not codes[0]:
                        continue
                    for fu, code in sorted(frac_code.items()):
                        if code in codes and fu in suffix and frac_ratio.get(fu):
                            pairs.append((unit, iso, fu, frac_ratio[fu]))
                compounds[cul] = (pairs, suffix)
                S.setdefault(('iso', cul), {}).update(iso_of)
        # de-duplicate, keep first occurrence order
        seen, uniq = set(), []
        for r in rows:
            if r not in seen:
                seen.add(r)
                uniq.append(r)
        entries[(mt, cul)] = uniq
    S['entries'], S['listing'], S['compounds'] = entries, listing, compounds
    S['keys'] = sorted(entries)


def number_value(cul, numeral):
    from recognizers_number import NumberRecognizer
    m = NUM_MODEL.get(cul)
    if m is None:
        m = NUM_MODEL[cul] = NumberRecognizer(cul).get_number_model(cul, True)
    r = m.parse(numeral)
    return r[0].resolution['value'] if len(r) == 1 else None


def is_cjk(s):
    return any('぀' <= c <= '鿿' or '＀' <= c <= '￯' for c in s)


def forms(kind, numeral, sp, cul):
    wordy = sp[0].isalpha() and not is_cjk(sp)
    if kind == 'suffix':
        return [numeral + ' ' + sp, numeral + sp] if not is_cjk(sp) else [numeral + sp, numeral + ' ' + sp]
    return [sp + ' ' + numeral, sp + numeral] if wordy else [sp + numeral, sp + ' ' + numeral]


def judge_single(mt, cul, q, lit_span, numeral_value, unit_ok, iso_expected):
    ents = registry.parse('NumberWithUnit', mt, cul, q)
    got = [(e.start, e.end, e.text, e.resolution) for e in ents]
    hit = [g for g in got if (g[0], g[1]) == lit_span]
    if not hit or len(got) != 1:
        return ('missing' if not got else 'span-or-split'), got
    res = hit[0][3] or {}
    if res.get('value') != numeral_value:
        return 'value', got
    if res.get('unit') not in unit_ok:
        return 'unit', got
    if iso_expected is not None and res.get('isoCurrency') not in iso_expected:
        return 'iso', got
    return None, got


def body(ch):
    part = ch.pick('part', ('table', 'compound'))
    if part == 'table':
        mt, cul = ch.pick('model', S['keys'])
        if mt == 'CurrencyModel' and CFG['currency_cultures'] is not None and cul not in CFG['currency_cultures']:
            ch.prune()
        rows = S['entries'][(mt, cul)]
        ci = ch.pick_index('chunk', (len(rows) + 39) // 40)
        ch.shard()
        kind, unit, sp = ch.pick('spelling', rows[ci * 40:(ci + 1) * 40])
        # besides the fixed numerals: every digit run of the spelling itself (km2 -> 2, m3 -> 3), the case in which cutting
        # the number out of the entity text can damage the unit
        own = [d for d in dict.fromkeys(re.findall(r'\d+', sp)) if d not in CFG['numerals'] and d != '0']
        numeral = ch.pick('numeral', CFG['numerals'] + own + ['0'])        # 0: the boundary numeral (falsy value)
        if cul in DECIMAL_COMMA:
            numeral = numeral.replace('.', ',')
        car = CARRIER.get(cul, CARRIER['default']) if (cul != 'zh-cn' or is_cjk(sp)) else CARRIER['default']
        pre, post = ch.pick('carrier', (('', ''), car) if numeral != '0' else (('', ''),))
        nv = number_value(cul, numeral)
        if nv is None:
            ch.prune()
        unit_ok = S['listing'].get((mt, cul, sp), set()) | S['listing'].get((mt, cul, sp.lower()), set())
        iso_expected = None
        if mt == 'CurrencyModel':
            iso_of = S.get(('iso', cul), {})
            iso_expected = set()
            for u in unit_ok:
                code = iso_of.get(u)
                iso_expected.add(None if (code is None or code.startswith('_')) else code)
                if u in S.get(('no_iso', cul), ()):
                    iso_expected.add(None)        # unit served by a sub-model without ISO resolution
        if numeral == '0':
            # the boundary numeral is judged only for entries that work with an ordinary numeral (the others are reported by
            # their own leaves): a failure here is then attributable to the value 0
            nv3 = number_value(cul, '3')
            if not any(judge_single(mt, cul, lit3, (0, len(lit3) - 1), nv3, unit_ok, iso_expected)[0] is None
                       for lit3 in forms(kind, '3', sp, cul)):
                ch.ok(nontrivial=False, outcome='numeral-0-not-applicable')
                return
        last = None
        for lit in forms(kind, numeral, sp, cul):
            q = pre + lit + post
            err, got = judge_single(mt, cul, q, (len(pre), len(pre) + len(lit) - 1), nv, unit_ok, iso_expected)
            last = last or (err, got, q)
            if err is None:
                ch.ok(case=(mt, cul, q), outcome='%s|%s' % (mt, cul),
                      sample={'model': mt, 'culture': cul, 'query': q, 'entity': got[0]} if kind == 'prefix' else None)
                return
        err, got, q = last
        ch.fail('%s|%s|%s|%s|%s%s%s' % (mt, cul, unit, sp, err, '|carrier' if pre else '', '|numeral-0' if numeral == '0' else ''),
                {'model': mt, 'culture': cul, 'unit': unit, 'spelling': sp, 'kind': kind, 'query': q, 'observed': got,
                 'expected': {'value': nv, 'unit_in': sorted(unit_ok), 'iso_in': sorted(map(str, iso_expected)) if iso_expected else None}})
    else:
        culs = sorted(S['compounds'])
        cul = ch.pick('culture', culs)
        if CFG['currency_cultures'] is not None and cul not in CFG['currency_cultures']:
            ch.prune()
        pairs, suffix = S['compounds'][cul]
        ci = ch.pick_index('chunk', (len(pairs) + 19) // 20)
        ch.shard()
        unit, iso, fu, ratio = ch.pick('pair', pairs[ci * 20:(ci + 1) * 20])
        n, mnum = ch.pick('amounts', ((1, 1), (3, 50), (10, 5), (1, 99), (0, 50), (3, 0)))
        conn = ch.pick('connector', (CONNECT.get(cul, ' '), ' '))
        su = suffix[unit].split('|')[0]
        sf = suffix[fu].split('|')[0]
        glue = '' if is_cjk(su) else ' '
        if cul == 'zh-cn' and not is_cjk(su):
            conn = ' and ' if conn.strip() == '' and conn == CONNECT['zh-cn'] else ' '
        lit = '%d%s%s%s%d%s%s' % (n, glue, su, conn if not is_cjk(su) else '', mnum, glue, sf)
        if 0 in (n, mnum):
            # judged only for pairs that merge with ordinary amounts (the others are reported by their own leaves)
            lit3 = '%d%s%s%s%d%s%s' % (3, glue, su, conn if not is_cjk(su) else '', 50, glue, sf)
            e3 = registry.parse('NumberWithUnit', 'CurrencyModel', cul, lit3)
            if len(e3) != 1 or (e3[0].start, e3[0].end) != (0, len(lit3) - 1):
                ch.ok(nontrivial=False, outcome='amount-0-not-applicable')
                return
        ents = registry.parse('NumberWithUnit', 'CurrencyModel', cul, lit)
        got = [(e.start, e.end, e.text, e.resolution) for e in ents]
        exp = n + mnum / float(ratio)
        rec = {'culture': cul, 'query': lit, 'main_unit': unit, 'iso': iso, 'fraction_unit': fu, 'ratio': ratio,
               'expected_value': exp, 'observed': got}
        key = 'compound|%s|%s+%s%s' % (cul, unit, fu, '|amount-0' if 0 in (n, mnum) else '')
        if len(got) != 1 or (got[0][0], got[0][1]) != (0, len(lit) - 1):
            ch.fail('%s|%s' % (key, 'missing' if not got else 'split'), rec)
            return
        res = got[0][3] or {}
        try:
            val = float(str(res.get('value')).replace(',', '.'))
        except ValueError:
            val = None
        if val is None or abs(val - exp) > 1e-9:
            ch.fail('%s|value' % key, rec)
        elif res.get('unit') != unit and unit not in (S['listing'].get(('CurrencyModel', cul, su.lower()), set())):
            ch.fail('%s|unit' % key, rec)
        elif not iso.startswith('_') and res.get('isoCurrency') != iso:
            ch.fail('%s|iso' % key, rec)
        else:
            ch.ok(case=('compound', cul, lit), outcome='compound|%s' % cul, sample=rec if mnum == 50 else None)


def canary():
    err, got = judge_single('DimensionModel', 'en-us', '3 kg', (0, 3), '3', {'Kilogram'}, None)
    if err is not None:
        return 'canary precondition: %r %r' % (err, got)
    err, got = judge_single('DimensionModel', 'en-us', '3 kg', (0, 3), '3', {'Gram'}, None)
    return True if err == 'unit' else 'oracle accepted a wrong unit'
