"""C01 - entity spans point at the text they claim to have recognised."""
from props import spans_common as sc
from props.spans_common import configure as _configure, worker_init  # noqa: F401

ID = 'C01'
RULE = ('every registered (model, culture) pair (81) x {every Python-supported Specs model input of the culture; every sequence of '
        '2 tokens over the closed per-culture pool and of 3 tokens over its head, joined by " " or ""; pairs and triples of '
        'spec-derived entity expressions with separators}. The pool holds the most frequent words of the culture\'s spec '
        'entities, numerals, punctuation, full-width forms and every code point whose lower-casing changes the string length. '
        'Oracle: 0 <= start <= end < len(q) and norm(q[start..end]) == norm(text) up to outer whitespace, with norm an independent '
        'length-preserving normaliser. Non-trivial = a model call that returned >= 1 entity, all correct; distinct = distinct '
        '(culture, model, query).')
ASSUMPTIONS = ['normalisation = the 24 full-width replacements + per-code-point lower-casing where that keeps the length',
               'default options; date-time models get the spec\'s own reference (or 2016-11-07T12:00)']
MIN_NONTRIVIAL = 5000


def configure(tier, seed):
    return _configure(tier, seed)


def classify(q, e, kind):
    marks = []
    if any(len(c.lower()) != 1 for c in q):
        marks.append('case-expanding-char-in-query')
    return '|'.join([kind] + marks)


def body(ch):
    part, cul, q, ref = sc.build(ch)
    if part == 'shared-state-writes':
        res = sc.shared_state_writes(ch)
        if res:
            ch.fail(res[0], res[1])
        else:
            ch.ok(case=None, nontrivial=True, outcome='shared-state-writes')
        return
    if part == 'two-threads':
        (rec, mt), qs, plan, got, alone = sc.two_threads(ch)
        for tid, q in enumerate(qs):
            ents = got[tid]
            if isinstance(ents, str):
                ch.fail('two-threads|%s|exception' % mt, {'model': mt, 'queries': qs, 'plan': plan, 'error': ents})
                return
            for e in ents:
                err = sc.span_error(q, e)
                if err:
                    ch.fail('two-threads|%s|%s' % (mt, err), {'model': mt, 'queries': qs, 'plan': plan, 'thread': tid,
                                                             'entity': (e.start, e.end, e.text), 'slice': q[max(0, e.start):e.end + 1]})
                    return
        ch.ok(case=(mt, tuple(map(tuple, plan))), outcome='two-threads|%s' % mt, evals=2)
        return
    if part == 'normaliser':
        # the normalisation itself, exhaustively over every Unicode code point: it must be length-preserving, and every code
        # point it rewrites must be one the independent normaliser of this driver knows (otherwise texts cannot be compared)
        bad = sc.S['normaliser_bad']
        unknown = [c for c in sc.S['normaliser_touched'] if c not in sc.FULLWIDTH]
        if bad:
            c, cs, out = bad[0]
            ch.fail('normaliser|length-changing-rewrite|U+%04X' % ord(c), {'code_point': 'U+%04X' % ord(c), 'char': c, 'case_sensitive': cs,
                                                                          'image': out, 'all': ['U+%04X' % ord(x[0]) for x in bad][:20]})
        elif unknown:
            ch.fail('normaliser|undocumented-rewrite|U+%04X' % ord(unknown[0]), {'code_points': ['U+%04X' % ord(c) for c in unknown][:20]})
        else:
            ch.ok(case=('normaliser',), nontrivial=True, outcome='normaliser', evals=2 * (0x110000 - 2048),
                  sample={'normaliser': 'all %d code points x 2 case modes keep length 1' % (0x110000 - 2048),
                          'rewritten_code_points': len(sc.S['normaliser_touched'])})
        return
    n_calls = 0
    for rec, mt, ents in sc.calls(cul, q, ref):
        n_calls += 1
        bad = None
        for e in ents:
            err = sc.span_error(q, e)
            if err:
                bad = (e, err)
                break
        if bad:
            e, err = bad
            key = '%s|%s|%s|%s' % (cul, mt, part if part != 'specs' else 'specs:' + q[:40], classify(q, e, err))
            ch.fail(key, {'culture': cul, 'model': mt, 'query': q, 'reference': ref.isoformat(),
                          'entity': {'start': getattr(e, 'start', None), 'end': getattr(e, 'end', None), 'text': getattr(e, 'text', None)},
                          'slice': q[max(0, e.start):e.end + 1] if isinstance(getattr(e, 'start', None), int) and isinstance(getattr(e, 'end', None), int) else None})
        else:
            ch.ok(case=(cul, mt, q), nontrivial=bool(ents), outcome='%s|%s' % (part, mt),
                  sample={'culture': cul, 'model': mt, 'query': q, 'entities': [(e.start, e.end, e.text) for e in ents]}
                  if len(ents) == 2 and part == 'tokens-k2' else None)


def canary():
    class E(object):
        start, end, text = 3, 4, '12'
    if sc.span_error('İ 12 apples', E) is None:
        return 'oracle accepts a shifted span'
    E.start, E.end, E.text = 2, 3, '12'
    return True if sc.span_error('İ 12 apples', E) is None else 'oracle rejects a right span'
