"""C09 - dates without a year (and bare weekday names) resolve to the nearest past and the next
future occurrence.  Reference dates are enumerated around every stated day and at year boundaries."""
from datetime import date, datetime, timedelta

from oracles import dt

ID = 'C09'
RULE = ('all 366 (month, day) x layout "Mon d" x references {stated day -1, 0, +1 in each of 8 years 2015-2022 at noon, the stated '
        'day at 00:00:00 and 23:59:59, Jan 1 / Feb 28 / Feb 29 / Mar 1 / Dec 31 of a leap and a non-leap year}; layouts "Month dth", '
        '"d Month", "m/d" x the stated day -1/0/+1 in a seed-rotated year (thorough: every layout x every reference day of '
        '2015-2022 x 2 times); 7 weekdays x {full, 3-letter} x a 28-day window x 3 times of day. Oracle: past = max occurrence < '
        'date(R), future = min occurrence >= date(R), exactly these two values in this order, TIMEX XXXX-MM-DD / XXXX-WXX-d. '
        'Non-trivial = both candidates found and right; distinct = distinct (query, R).')
ASSUMPTIONS = ['occurrences of Feb 29 are the leap years; "strictly before R\'s date / on or after it" compares calendar dates, '
               'whatever R\'s time of day',
               'English only (the statement names no other culture; other cultures are covered by C19 on the spec inputs)']
MIN_NONTRIVIAL = 3000
CFG = {}
YEARS = list(range(2015, 2023))
LAYOUTS = ['Mon d', 'Month dth', 'd Month', 'm/d']
FULL_SWEEP_DAYS = [(2, 29), (2, 28), (3, 1), (1, 1), (12, 31), (7, 4)]


def md_list():
    out = []
    d = date(2016, 1, 1)
    while d.year == 2016:
        out.append((d.month, d.day))
        d += timedelta(days=1)
    return out


def configure(tier, seed):
    CFG.update(tier=tier, seed=seed, mds=md_list(), year2=YEARS[seed % 8])
    return {'shard_depth': 99, 'progress': True,
            'bounds': {'month_days': 366, 'years': YEARS, 'layouts': LAYOUTS, 'weekday_window_days': 28},
            'blocks': ['all'] if tier == 'thorough' else ['secondary layouts in year %d' % CFG['year2']]}


def worker_init():
    import os
    configure(os.environ['VERIF_TIER'], int(os.environ['VERIF_SEED']))


def occurrences(m, d):
    out = []
    for y in range(1990, 2050):
        try:
            out.append(date(y, m, d))
        except ValueError:
            pass
    return out


def refs_for(m, d, layout):
    """reference datetimes enumerated for one stated day"""
    rs = []
    if CFG['tier'] == 'thorough' and layout == 'Mon d':
        # every reference day of the 8 years (2,922 days) at a time of day that rotates with the day
        x = date(YEARS[0], 1, 1)
        while x.year <= YEARS[-1]:
            h = (0, 12, 23)[x.toordinal() % 3]
            rs.append(datetime(x.year, x.month, x.day, h, 0 if h != 23 else 59, 0 if h != 23 else 59))
            x += timedelta(days=1)
        return rs
    occ = [o for o in occurrences(m, d) if o.year in YEARS]
    if layout == 'Mon d' and (m, d) in FULL_SWEEP_DAYS:
        # special days (the leap day and its neighbours, the year boundaries, one ordinary day): every reference day
        # of a leap year and of a non-leap year
        for y in (2016 + 4 * (CFG['seed'] % 2), 2017 + CFG['seed'] % 3):
            x = date(y, 1, 1)
            while x.year == y:
                rs.append(datetime(x.year, x.month, x.day, 12, 0, 0))
                x += timedelta(days=1)
    if layout == 'Mon d':
        for o in occ:
            for k in (-1, 0, 1):
                x = o + timedelta(days=k)
                rs.append(datetime(x.year, x.month, x.day, 12, 0, 0))
        for o in occ[:2]:
            rs.append(datetime(o.year, o.month, o.day, 0, 0, 0))
            rs.append(datetime(o.year, o.month, o.day, 23, 59, 59))
        for y in (2016, 2019):
            for mm, dd in ((1, 1), (2, 28), (2, 29), (3, 1), (12, 31)):
                try:
                    rs.append(datetime(y, mm, dd, 12, 0, 0))
                except ValueError:
                    pass
    else:
        near = [o for o in occ if o.year >= CFG['year2']][:1] or occ[:1]
        for o in near:
            for k in (-1, 0, 1):
                x = o + timedelta(days=k)
                rs.append(datetime(x.year, x.month, x.day, 12, 0, 0))
    return rs


def render(m, d, layout):
    name, ab = dt.MONTHS['en-us'][m - 1], dt.EN_ABBR[m - 1]
    return {'Mon d': '%s %d' % (ab, d), 'Month dth': '%s %s' % (name, dt.ordinal_en(d)), 'd Month': '%d %s' % (d, name),
            'm/d': '%d/%d' % (m, d)}[layout]


def check(ch, cls, q, ref, past, future, timex):
    got = dt.run('en-us', q, ref)
    exp = [{'timex': timex, 'type': 'date', 'value': past.isoformat()},
           {'timex': timex, 'type': 'date', 'value': future.isoformat()}]
    rec = {'query': q, 'reference': ref.isoformat(), 'expected': exp, 'observed': got}
    if len(got) != 1 or (got[0][0], got[0][1]) != (0, len(q) - 1):
        ch.fail('%s|%s' % (cls, 'missing' if not got else 'span-or-split'), rec)
    elif got[0][3] != 'datetimeV2.date' or got[0][4] is None:
        ch.fail('%s|type' % cls, rec)
    elif got[0][4] != exp:
        vals = got[0][4]
        sig = 'count=%d' % len(vals)
        if len(vals) == 2:
            try:
                dp = (date.fromisoformat(vals[0]['value']).year - past.year)
                df = (date.fromisoformat(vals[1]['value']).year - future.year)
                sig = 'years-off(past%+d,future%+d)' % (dp, df) if (dp or df) else 'timex-or-order'
            except Exception:
                sig = 'unparsable'
        cond = 'R-on-stated-day' if ref.date() in (past, future) else 'R-elsewhere'
        tod = 'midnight' if (ref.hour, ref.minute, ref.second) == (0, 0, 0) else 'daytime'
        ch.fail('%s|value|%s|%s|%s' % (cls, sig, cond, tod), rec)
    else:
        ch.ok(case=(q, ref), outcome=cls, sample=rec if ref.date() == future else None)


def body(ch):
    part = ch.pick('part', ('month-day', 'weekday', 'two-threads'))
    if part == 'two-threads':
        # two callers with different reference dates share the cached model: every schedule with <= 1 preemption (every call
        # of a function of the date parser, its utilities and the merging modules is a scheduling point); each caller's candidates must be those of its own reference
        import os
        from vmc import env, sched
        q = ch.pick('query', ('monday', 'nov 7'))
        r1, r2 = datetime(1987, 3, 10, 12, 0, 0), datetime(2031, 12, 30, 12, 0, 0)
        alone = {r: dt.run('en-us', q, r) for r in (r1, r2)}
        plan, ex = sched.pick_and_run(ch, CFG.setdefault('counts', {}), q, os.path.join(env.REPO, 'Python', 'libraries'),
                                      ('files', ('base_date.py', 'base_merged.py', os.path.join('date_time', 'utilities.py'), 'models.py')), 1,
                                      [lambda r=r1: dt.run('en-us', q, r), lambda r=r2: dt.run('en-us', q, r)], chunk=60)
        for tid, r in enumerate((r1, r2)):
            got = ex.results[tid] if ex.errors[tid] is None else 'EXC ' + ex.errors[tid]
            if got != alone[r]:
                ch.fail('two-threads|candidates-of-the-other-reference', {'query': q, 'references': [r1.isoformat(), r2.isoformat()],
                                                                         'plan': plan, 'thread': tid, 'observed': got, 'alone': alone[r]})
                return
        ch.ok(case=(q, tuple(map(tuple, plan))), outcome='two-threads', evals=2)
        return
    if part == 'month-day':
        layout = ch.pick('layout', LAYOUTS)
        mi = ch.pick_index('chunk', 12)
        ch.shard()
        m, d = ch.pick('month_day', [x for x in CFG['mds'] if x[0] == mi + 1])
        ref = ch.pick('R', refs_for(m, d, layout))
        occ = occurrences(m, d)
        past = max(o for o in occ if o < ref.date())
        future = min(o for o in occ if o >= ref.date())
        cls = 'month-day|%s%s' % (layout, '|feb29' if (m, d) == (2, 29) else '')
        check(ch, cls, render(m, d, layout), ref, past, future, 'XXXX-%02d-%02d' % (m, d))
    else:
        wd = ch.pick('weekday', range(7))
        # 'sat' and 'sun' are ordinary English words and deliberately not weekday names on their own
        name = ch.pick('name', ('full', 'abbr') if wd < 5 else ('full',))
        ch.shard()
        start = date(2019 + CFG['seed'] % 3, 12, 20)
        off = ch.pick('day', range(28))
        h, mi, s = ch.pick('time', ((0, 0, 0), (12, 0, 0), (23, 59, 59)))
        x = start + timedelta(days=off)
        ref = datetime(x.year, x.month, x.day, h, mi, s)
        q = dt.WEEKDAYS_EN[wd] if name == 'full' else dt.WEEKDAYS_EN_ABBR[wd]
        delta = (x.weekday() - wd) % 7
        past = x - timedelta(days=delta if delta else 7)
        future = x + timedelta(days=(wd - x.weekday()) % 7)
        check(ch, 'weekday|%s' % name, q, ref, past, future, 'XXXX-WXX-%d' % (wd + 1))


def canary():
    from vmc.explore import Acc, Ch
    acc = Acc()
    check(Ch([], acc), 'canary', 'nov 8', datetime(2016, 11, 7, 0, 0, 0), date(2015, 11, 8), date(2017, 11, 8), 'XXXX-11-08')
    return True if acc.failures else 'oracle accepted a wrong future candidate'
