"""Stand-in for `ruamel.yaml` (not installed, cannot be fetched): the three calls the repository's
resource generator uses -- YAML(typ='safe'), register_class, load -- on top of the vendored
pure-Python PyYAML in /verif/vendor/yaml.  The generator's tag classes read raw node values, so
scalar-resolution differences between YAML 1.1 and 1.2 cannot reach tagged definitions."""
import os
import sys

_vendor = os.path.join(os.path.dirname(os.path.dirname(os.path.dirname(os.path.abspath(__file__)))), 'vendor')
if _vendor not in sys.path:
    sys.path.append(_vendor)
import yaml as _yaml  # noqa: E402


class YAML(object):
    def __init__(self, typ='safe', pure=True):
        class _Loader(_yaml.SafeLoader):
            pass
        self._loader = _Loader

    def register_class(self, cls):
        tag = cls.yaml_tag
        self._loader.add_constructor(tag, lambda loader, node, _c=cls: _c.from_yaml(loader, node))
        return cls

    def load(self, stream):
        return _yaml.load(stream, Loader=self._loader)
