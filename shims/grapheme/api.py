import regex as _regex

_X = _regex.compile(r'\X')


def graphemes(string):
    return iter(_X.findall(string))


def length(string, until=None):
    n = 0
    for _ in _X.finditer(string):
        n += 1
        if until is not None and n >= until:
            break
    return n


def slice(string, start=None, end=None):
    import builtins
    if start is None:
        start = 0
    if end is not None and start >= end:
        return ''
    parts = _X.findall(string)
    return ''.join(parts[builtins.slice(start, end)])
