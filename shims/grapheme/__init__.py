"""Stand-in for the PyPI package `grapheme` (not installed, cannot be fetched): extended grapheme
clusters via the `regex` module's \\X.  Only the calls Recognizers-Text uses are provided."""
from .api import graphemes, length, slice  # noqa: F401
