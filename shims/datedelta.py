"""Stand-in for the PyPI package `datedelta` (1.x), which is not installed and cannot be fetched
in this sandbox.  Reproduces the documented semantics: years are applied first, then months, then
days; adding to a day that does not exist in the target month rolls over to the 1st of the
following month, subtracting clips to the last day of the target month; 29 Feb + n years -> 1 Mar,
29 Feb - n years -> 28 Feb.  Part of the trusted base of /verif (see DESIGN.md section 1)."""
from calendar import isleap, monthrange
from datetime import date, timedelta

__all__ = ['datedelta']


class datedelta(object):
    __slots__ = ('_years', '_months', '_days')

    def __init__(self, years=0, months=0, days=0):
        for v in (years, months, days):
            if int(v) != v:
                raise ValueError('datedelta arguments must be integers')
        self._years, self._months, self._days = int(years), int(months), int(days)

    years = property(lambda self: self._years)
    months = property(lambda self: self._months)
    days = property(lambda self: self._days)

    def __repr__(self):
        return 'datedelta(years=%d, months=%d, days=%d)' % (self._years, self._months, self._days)

    def __eq__(self, other):
        return (isinstance(other, datedelta) and
                (self._years, self._months, self._days) == (other._years, other._months, other._days))

    def __hash__(self):
        return hash((self._years, self._months, self._days))

    def __neg__(self):
        return datedelta(-self._years, -self._months, -self._days)

    def __pos__(self):
        return self

    def __add__(self, other):
        if isinstance(other, datedelta):
            return datedelta(self._years + other._years, self._months + other._months,
                             self._days + other._days)
        if isinstance(other, date):
            return self.__radd__(other)
        return NotImplemented

    def __sub__(self, other):
        if isinstance(other, datedelta):
            return self + (-other)
        return NotImplemented

    def __mul__(self, k):
        if isinstance(k, int):
            return datedelta(self._years * k, self._months * k, self._days * k)
        return NotImplemented

    __rmul__ = __mul__

    def __radd__(self, other):
        if not isinstance(other, date):
            return NotImplemented
        year, month, day = other.year, other.month, other.day
        if self._years:
            year += self._years
            if month == 2 and day == 29 and not isleap(year):
                if self._years > 0:
                    month, day = 3, 1
                else:
                    day = 28
        if self._months:
            idx = year * 12 + (month - 1) + self._months
            year, month = idx // 12, idx % 12 + 1
            last = monthrange(year, month)[1]
            if day > last:
                if self._months > 0:
                    idx += 1
                    year, month, day = idx // 12, idx % 12 + 1, 1
                else:
                    day = last
        result = other.replace(year=year, month=month, day=day)
        if self._days:
            result = result + timedelta(days=self._days)
        return result

    def __rsub__(self, other):
        if isinstance(other, date):
            return (-self).__radd__(other)
        return NotImplemented


YEAR = datedelta(years=1)
MONTH = datedelta(months=1)
WEEK = datedelta(days=7)
DAY = datedelta(days=1)
