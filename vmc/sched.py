"""Engine E3: controlled cooperative scheduler over real Python threads.

Every thread of a harness runs under sys.settrace; at each *scheduling point* (a trace event selected by
the granularity) the running thread asks the scheduler whether its current segment is used up and, if
so, hands the baton to the thread of the next segment and parks on its own semaphore.  Exactly one
thread runs at any time, so an execution is fully determined by its *plan*: a list of segments
(thread id, number of scheduling points or None = until it finishes).  Plans with n segment changes away
from a still-runnable thread are the schedules with n preemptions.

Granularities (which trace events are scheduling points):
  'cache'  line events inside recognizers_text/model.py and recognizer.py (the check-then-act on the
           process-wide model cache), call events of every other library function
  'calls'  call events of every library function
  ('files', suffixes)  call events of every function defined in the named source files
  ('dirs', fragments)  call events of every function defined in a file whose path contains one of the fragments
  'methods' call events of extract()/parse() methods only (few points per call: used for 2-preemption bounds)
  'coarse' call events of extract()/parse() methods and of every function defined in the orchestrating
           modules (merged extractor/parser, model classes, model factory): the method boundaries of the
           objects shared through the cache
"""
import os
import sys
import threading

# 'coarse' scheduling points: entry of every extract()/parse() method, and entry of *every* function of the modules that
# orchestrate sub-extractors / sub-parsers and own the objects shared through the cache (merged extractor and parser, the
# model classes, the model factory and recogniser base)
COARSE_NAMES = frozenset(['parse', 'extract'])
COARSE_FILES = ('base_merged.py', 'models.py', os.path.join('recognizers_text', 'model.py'),
                os.path.join('recognizers_text', 'recognizer.py'), 'extractors.py', 'parsers.py')


class Deadlock(Exception):
    pass


class Execution(object):
    def __init__(self, lib_root, granularity, plan, bodies):
        self.lib_root = lib_root
        self.cache_files = (os.path.join('recognizers_text', 'model.py'), os.path.join('recognizers_text', 'recognizer.py'))
        self.gran = granularity
        self.plan = list(plan)
        self.bodies = bodies
        self.n = len(bodies)
        self.sems = [threading.Semaphore(0) for _ in bodies]
        self.done = [False] * self.n
        self.results = [None] * self.n
        self.errors = [None] * self.n
        self.points = [0] * self.n
        self.seg = 0
        self.left = None
        self.trace_log = []          # (tid, points run) per finished segment: the schedule actually executed
        self.switches = 0

    # -- plan handling ---------------------------------------------------------------------------
    def _begin_segment(self):
        """advance self.seg to the next segment whose thread can still run; returns its tid or None"""
        while self.seg < len(self.plan):
            tid, budget = self.plan[self.seg]
            if not self.done[tid]:
                self.left = budget
                return tid
            self.seg += 1
        # plan exhausted: run the remaining threads to completion in id order
        for tid in range(self.n):
            if not self.done[tid]:
                self.plan.append((tid, None))
                self.left = None
                return tid
        return None

    def _yield_from(self, tid):
        """called by the running thread at a scheduling point when its budget is used up"""
        self.seg += 1
        nxt = self._begin_segment()
        if nxt is None or nxt == tid:
            return
        self.switches += 1
        self.sems[nxt].release()
        self.sems[tid].acquire()

    def _point(self, tid):
        self.points[tid] += 1
        if self.left is not None:
            if self.left <= 0:
                self._yield_from(tid)
            else:
                self.left -= 1

    # -- tracing ---------------------------------------------------------------------------------
    def _make_tracer(self, tid):
        lib_root, gran, cache_files, point = self.lib_root, self.gran, self.cache_files, self._point

        def local_line(frame, event, arg):
            if event == 'line':
                point(tid)
            return local_line

        def tracer(frame, event, arg):
            if event != 'call':
                return None
            fn = frame.f_code.co_filename
            if not fn.startswith(lib_root):
                return None
            if gran == 'coarse':
                if frame.f_code.co_name in COARSE_NAMES or fn.endswith(COARSE_FILES):
                    point(tid)
                return None
            if isinstance(gran, tuple) and gran[0] == 'files':     # ('files', suffixes): every call of a function defined there
                if fn.endswith(gran[1]):
                    point(tid)
                return None
            if isinstance(gran, tuple) and gran[0] == 'dirs':      # ('dirs', fragments): every call of a function defined under them
                for d in gran[1]:
                    if d in fn:
                        point(tid)
                        break
                return None
            if gran == 'methods':
                if frame.f_code.co_name in COARSE_NAMES:
                    point(tid)
                return None
            if gran == 'cache' and fn.endswith(cache_files):
                point(tid)
                return local_line
            point(tid)
            return None
        return tracer

    def _thread_main(self, tid):
        self.sems[tid].acquire()
        sys.settrace(self._make_tracer(tid))
        try:
            self.results[tid] = self.bodies[tid]()
        except Exception as e:           # a thread that raises is an outcome, not a harness failure
            self.errors[tid] = '%s: %s' % (type(e).__name__, e)
        finally:
            sys.settrace(None)
            self.done[tid] = True
            self.seg += 1
            nxt = self._begin_segment()
            if nxt is not None:
                self.switches += 1
                self.sems[nxt].release()
            else:
                self.all_done.set()

    def run(self, timeout=120):
        self.all_done = threading.Event()
        threads = [threading.Thread(target=self._thread_main, args=(i,), daemon=True) for i in range(self.n)]
        for t in threads:
            t.start()
        first = self._begin_segment()
        if first is None:
            return self
        self.sems[first].release()
        if not self.all_done.wait(timeout):
            raise Deadlock('no progress within %ss: plan=%r done=%r points=%r' % (timeout, self.plan, self.done, self.points))
        for t in threads:
            t.join(5)
        return self


def run_plan(lib_root, granularity, plan, bodies):
    return Execution(lib_root, granularity, plan, bodies).run()


def plans_up_to(bound, counts):
    """All plans for 2 threads with at most `bound` preemptions, given the number of scheduling points each thread
    executes when it runs first (counts[0], counts[1]).  A preemption = switching away from a thread that could go on."""
    out = [[(0, None), (1, None)], [(1, None), (0, None)]]                        # 0 preemptions
    if bound >= 1:
        for a, b in ((0, 1), (1, 0)):
            for k in range(1, counts[a]):
                out.append([(a, k), (b, None), (a, None)])
    if bound >= 2:
        for a, b in ((0, 1), (1, 0)):
            for k1 in range(1, counts[a]):
                for k2 in range(1, counts[b]):
                    out.append([(a, k1), (b, k2), (a, None), (b, None)])
    return out


def pick_and_run(ch, cache, key, lib_root, granularity, bound, bodies, prepare=None, chunk=None):
    """Driver-side helper: measure the two threads' scheduling points once per worker (bound-0 runs), let the explorer
    pick one plan with at most `bound` preemptions (optionally through a chunk decision that ends the shard prefix),
    run it and return the Execution."""
    if key not in cache:
        cs = []
        for first in (0, 1):
            if prepare:
                prepare()
            ex = run_plan(lib_root, granularity, [(first, None), (1 - first, None)], bodies)
            cs.append(ex.points[first])
        cache[key] = cs
    plans = plans_up_to(bound, cache[key])
    if chunk:
        ci = ch.pick_index('chunk', (len(plans) + chunk - 1) // chunk)
        ch.shard()
        plans = plans[ci * chunk:(ci + 1) * chunk]
    plan = ch.pick('plan', plans)
    if prepare:
        prepare()
    ex = run_plan(lib_root, granularity, plan, bodies)
    ch.tally('schedules')
    ch.tally('context_switches', ex.switches)
    return plan, ex
