"""Stateless, exhaustive choice-tree explorer (engine E1 of DESIGN.md, also the enumeration core of
E2/E3).

A *driver body* is ordinary Python taking a choice context `ch`.  Every nondeterministic decision
is a call `ch.pick(label, options)` over a finite list.  The explorer runs the body once per leaf of
the resulting choice tree (depth-first, odometer order, choice 0 first = simplest first), replaying
the decision prefix on each run.  Sub-trees are sharded over worker processes by decision prefix.

Nothing is sampled and nothing is capped silently: the explorer counts tree nodes, edges and leaves,
every dispatched shard must report back, and a driver-declared analytic `space_size` (when given)
must equal the number of leaves executed, otherwise the run is *incomplete* (exit status 2).
"""
import collections
import multiprocessing
import os
import sys
import time
import traceback


class HarnessError(Exception):
    """The harness itself is wrong (divergent replay, lost shard, size mismatch)."""


class _Stop(Exception):
    """Raised in probe mode when the body asks for a decision below the shard depth."""


class Prune(Exception):
    """Raised by a body (via ch.prune()) for an infeasible combination: not a leaf."""


class LeafTimeout(Exception):
    """A real call did not return within the horizon a driver gave it (non-termination is an outcome, not a hang)."""


class time_limit(object):
    """with time_limit(seconds): ...   raises LeafTimeout in the (single-threaded) worker when the block overruns."""

    def __init__(self, seconds):
        self.seconds = seconds

    def _fire(self, signum, frame):
        raise LeafTimeout('no result within %ss' % self.seconds)

    def __enter__(self):
        import signal
        self._old = signal.signal(signal.SIGALRM, self._fire)
        signal.setitimer(signal.ITIMER_REAL, self.seconds)
        return self

    def __exit__(self, *exc):
        import signal
        signal.setitimer(signal.ITIMER_REAL, 0)
        signal.signal(signal.SIGALRM, self._old)
        return False


class Acc(object):
    """Per-shard accumulator, merged in the master."""
    MAX_OUTCOMES = 5000
    MAX_FAIL_PER_KEY = 3
    MAX_KEYS = 20000

    def __init__(self):
        self.leaves = 0
        self.evals = 0
        self.pruned = 0
        self.edges = 0
        self.nontrivial_hashes = set()
        self.nontrivial_n = 0
        self.outcomes = collections.Counter()
        self.failures = {}          # key -> [count, [records...]]
        self.samples = []
        self.extra = collections.Counter()   # free-form integer tallies (states, transitions ...)
        self.sets = {}                       # name -> set of hashes (distinct explicit states etc.), merged by union
        self.errors = []

    def merge(self, o):
        self.leaves += o.leaves
        self.evals += o.evals
        self.pruned += o.pruned
        self.edges += o.edges
        self.nontrivial_hashes |= o.nontrivial_hashes
        self.nontrivial_n += o.nontrivial_n
        self.outcomes.update(o.outcomes)
        for k, (n, recs) in o.failures.items():
            cur = self.failures.setdefault(k, [0, []])
            cur[0] += n
            for r in recs:
                if len(cur[1]) < self.MAX_FAIL_PER_KEY:
                    cur[1].append(r)
        for s in o.samples:
            if len(self.samples) < 12:
                self.samples.append(s)
        self.extra.update(o.extra)
        for k, v in o.sets.items():
            self.sets.setdefault(k, set()).update(v)
        self.errors.extend(o.errors[:5])


class Ch(object):
    """Choice context of one execution of a body."""
    __slots__ = ('vec', 'arity', 'labels', 'pos', 'probe_depth', 'acc', 'replaying', 'want_labels')

    def __init__(self, vec, acc, probe_depth=None, want_labels=False):
        self.vec = vec
        self.arity = [0] * len(vec)
        self.labels = []
        self.pos = 0
        self.probe_depth = probe_depth
        self.acc = acc
        self.want_labels = want_labels

    def pick(self, label, options):
        n = len(options)
        i = self.pos
        if i < len(self.vec):
            c = self.vec[i]
            if c >= n:
                raise HarnessError('replay diverged at decision %d (%s): choice %d of %d' % (i, label, c, n))
        else:
            if self.probe_depth is not None and i >= self.probe_depth:
                raise _Stop()
            if n == 0:
                raise Prune()
            c = 0
            self.vec.append(0)
            self.arity.append(0)
            self.acc.edges += n
        self.arity[i] = n
        if self.want_labels:
            self.labels.append((label, c, n))
        self.pos = i + 1
        return options[c]

    def pick_index(self, label, n):
        return self.pick(label, range(n))

    def prune(self):
        raise Prune()

    def shard(self):
        """Marks the point where the decision prefix of a work shard ends (no-op outside probe mode)."""
        if self.probe_depth is not None:
            raise _Stop()

    # -- result reporting -------------------------------------------------------------------
    def ok(self, case=None, nontrivial=True, outcome=None, evals=1, sample=None):
        a = self.acc
        a.evals += evals
        if nontrivial:
            if case is None:
                a.nontrivial_n += evals
            else:
                a.nontrivial_hashes.add(hash(case))
        if outcome is not None and (len(a.outcomes) < Acc.MAX_OUTCOMES or outcome in a.outcomes):
            a.outcomes[outcome] += 1
        if sample is not None and len(a.samples) < 3:
            a.samples.append(sample)

    def fail(self, key, record, evals=1):
        """Record a counter-example.  key: short string identifying the finding class."""
        a = self.acc
        a.evals += evals
        key = str(key)
        cur = a.failures.get(key)
        if cur is None:
            if len(a.failures) >= Acc.MAX_KEYS:
                key = '<overflow: more than %d distinct failure keys>' % Acc.MAX_KEYS
            cur = a.failures.setdefault(key, [0, []])
        cur[0] += 1
        if len(cur[1]) < Acc.MAX_FAIL_PER_KEY:
            rec = dict(record)
            rec['choice_vector'] = list(self.vec[:self.pos])
            rec['finding_key'] = key
            cur[1].append(rec)
        if len(a.outcomes) < Acc.MAX_OUTCOMES:
            a.outcomes['FAIL:' + key[:60]] += 1

    def tally(self, name, n=1):
        self.acc.extra[name] += n

    def see(self, name, item):
        """record a distinct explicit state / observation under `name` (counted exactly in the evidence)"""
        self.acc.sets.setdefault(name, set()).add(hash(item))


def _advance(vec, arity, floor):
    """Odometer step.  Returns False when the sub-tree rooted at vec[:floor] is exhausted."""
    while len(vec) > floor and vec[-1] + 1 >= arity[len(vec) - 1]:
        vec.pop()
    if len(vec) <= floor:
        return False
    vec[-1] += 1
    return True


def run_subtree(body, prefix, acc):
    """Run every leaf below `prefix`."""
    vec = list(prefix)
    floor = len(prefix)
    while True:
        ch = Ch(vec, acc)
        try:
            body(ch)
            acc.leaves += 1
        except Prune:
            acc.pruned += 1
        if ch.pos != len(ch.vec):
            raise HarnessError('body consumed %d decisions, replayed vector has %d (prefix %r)'
                               % (ch.pos, len(ch.vec), prefix))
        vec = ch.vec
        arity = ch.arity
        if not _advance(vec, arity, floor):
            return


def probe_prefixes(body, depth):
    """All decision prefixes of length <= depth (exactly depth unless the body ends earlier).
    The body is run in probe mode and must not do expensive work before its depth-th pick."""
    acc = Acc()
    out = []
    vec = []
    while True:
        ch = Ch(vec, acc, probe_depth=depth)
        complete = False
        try:
            body(ch)
            complete = True
        except _Stop:
            pass
        except Prune:
            pass
        if ch.pos != len(ch.vec):
            raise HarnessError('probe: body consumed %d decisions, vector has %d' % (ch.pos, len(ch.vec)))
        vec = ch.vec
        out.append(tuple(vec))
        arity = ch.arity
        if not _advance(vec, arity, 0):
            break
    return out, acc.edges


# ---------------------------------------------------------------------------------------------
# worker pool

_BODY = None


def _worker_init(modname, bodyname, initname, env_setup):
    global _BODY
    import warnings
    warnings.simplefilter('ignore')
    if env_setup:
        from vmc import env
        env.setup()
    mod = __import__(modname, fromlist=['x'])
    if initname and hasattr(mod, initname):
        getattr(mod, initname)()
    _BODY = getattr(mod, bodyname)
    if env_setup:
        from vmc import env
        env.assert_from_repo()


def _worker_run(prefix):
    acc = Acc()
    t = time.time()
    try:
        run_subtree(_BODY, prefix, acc)
    except Exception:
        acc.errors.append('shard %r: %s' % (prefix, traceback.format_exc()))
    acc.extra['cpu_ms'] += int((time.time() - t) * 1000)
    return prefix, acc


def explore(modname, bodyname='body', shard_depth=1, workers=None, initname='worker_init',
            env_setup=True, progress=None, canary=None):
    """Exhaustively run `modname.bodyname` over its whole choice tree.  Returns merged Acc."""
    workers = workers or int(os.environ.get('VERIF_WORKERS', '0')) or min(16, os.cpu_count() or 1)
    ctx = multiprocessing.get_context('fork')
    total = Acc()
    with ctx.Pool(workers, initializer=_worker_init,
                  initargs=(modname, bodyname, initname, env_setup)) as pool:
        # enumerate shard prefixes inside a worker so the master never imports the library
        if canary is not None:
            total.extra['canary_ok'] = 1 if pool.apply(canary) else 0
        prefixes, top_edges = pool.apply(_probe, (shard_depth,))
        total.edges += top_edges
        seen = set()
        n_done = 0
        for prefix, acc in pool.imap_unordered(_worker_run, prefixes, chunksize=1):
            if prefix in seen:
                raise HarnessError('shard reported twice: %r' % (prefix,))
            seen.add(prefix)
            total.merge(acc)
            n_done += 1
            if progress and n_done % max(1, len(prefixes) // 8) == 0:
                print('  .. %d/%d shards, %d evaluations' % (n_done, len(prefixes), total.evals),
                      file=sys.stderr, flush=True)
        if len(seen) != len(prefixes) or len(set(prefixes)) != len(prefixes):
            raise HarnessError('lost or duplicated shards: %d of %d' % (len(seen), len(prefixes)))
    total.extra['shards'] = len(prefixes)
    if total.errors:
        raise HarnessError('worker errors:\n' + '\n'.join(total.errors[:3]))
    return total


def _probe(depth):
    return probe_prefixes(_BODY, depth)


def run_single(body, vec):
    """Replay exactly one leaf given its choice vector (no exploration).  Returns (acc, labels)."""
    acc = Acc()
    ch = Ch(list(vec), acc, want_labels=True)
    try:
        body(ch)
        acc.leaves += 1
    except Prune:
        acc.pruned += 1
    if ch.pos != len(vec):
        raise HarnessError('replay consumed %d decisions, vector has %d' % (ch.pos, len(vec)))
    return acc, ch.labels
