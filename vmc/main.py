"""CLI of the checks:  ./check <ID> [--tier quick|thorough] [--seed N] [--replay file]

exit 0  property held on everything explored (KNOWN-FINDING lines possible)
exit 1  VIOLATION property=<id> replay=<path>
exit 2  harness error / incomplete enumeration (a broken check, never a pass)
"""
import argparse
import importlib
import json
import os
import sys
import time
import traceback

VERIF = os.path.dirname(os.path.dirname(os.path.abspath(__file__)))
if VERIF not in sys.path:
    sys.path.insert(0, VERIF)

from vmc import explore, report  # noqa: E402


def _driver(pid):
    return importlib.import_module('props.%s' % pid.lower())


def _canary_in_worker():
    mod = explore._BODY.__globals__
    c = mod.get('canary')
    if c is None:
        return 'no canary'
    r = c()
    if r is not True:
        raise explore.HarnessError('canary: the oracle accepted a deliberately wrong expectation (%r)' % (r,))
    return 'canary rejected as it must'


def run_check(pid, tier, seed):
    t0 = time.time()
    os.environ['VERIF_TIER'] = tier
    os.environ['VERIF_SEED'] = str(seed)
    drv = _driver(pid)
    info = drv.configure(tier, seed) or {}
    cov_extra = {}
    if hasattr(drv, 'prepare'):
        drv.prepare(tier, seed)          # master-side preparation (e.g. reference tables from fresh interpreters)
    if hasattr(drv, 'run'):
        acc, cov_extra = drv.run(tier, seed)
    else:
        acc = explore.explore(drv.__name__, 'body', shard_depth=info.get('shard_depth', 1),
                              progress=info.get('progress'), canary=_canary_in_worker)
    wall = time.time() - t0

    incomplete = []
    space = info.get('space_size')
    if space is not None and space != acc.leaves:
        incomplete.append('analytic space size %d != leaves executed %d' % (space, acc.leaves))
    distinct_nt = len(acc.nontrivial_hashes) + acc.nontrivial_n
    min_nt = info.get('min_nontrivial', getattr(drv, 'MIN_NONTRIVIAL', 2))
    if distinct_nt < min_nt:
        incomplete.append('vacuous: only %d distinct non-trivial cases (minimum %d)' % (distinct_nt, min_nt))

    n_new, hit, new = report.settle(pid, tier, seed, acc.failures)
    report.dump_failures(pid, tier, seed, acc.failures)
    samples = list(acc.samples[:6])
    for key, (n, recs) in list(acc.failures.items())[:3]:
        if recs:
            samples.append({'counter_example': report.jsonable(recs[0])})
    if not samples:
        samples = [{'note': 'driver produced no sample'}]
    coverage = {
        'evaluations': acc.evals,
        'distinct_nontrivial': distinct_nt,
        'rule': drv.RULE,
        'samples': samples,
        'states': acc.edges + 1,
        'transitions': acc.edges,
        'traces_validated_against_impl': acc.evals,
        'exhaustive': not incomplete,
        'leaves': acc.leaves,
        'pruned_infeasible': acc.pruned,
        'space_size': space if space is not None else acc.leaves,
        'bounds': info.get('bounds', {}),
        'blocks': info.get('blocks', []),
        'shards': acc.extra.get('shards', 0),
        'distinct_outcomes': len(acc.outcomes),
        'outcome_histogram_top': dict(acc.outcomes.most_common(12)),
        'known_findings_hit': hit,
        'failing_cases': sum(n for n, _ in acc.failures.values()),
        'new_violation_classes': n_new,
        'state_graph_note': ('states/transitions = nodes/edges of the explored choice tree (or of the '
                             'explicit state graph where the driver builds one); every leaf is one trace of '
                             'the reference model executed in lock-step against the real implementation'),
        'cpu_s': round(acc.extra.get('cpu_ms', 0) / 1000.0, 1),
    }
    for k, v in acc.extra.items():
        if k not in ('cpu_ms', 'shards'):
            coverage.setdefault(k, v)
    for k, v in acc.sets.items():
        coverage['distinct_' + k] = len(v)
    coverage.update(cov_extra)
    path = report.write_evidence(pid, tier, seed, coverage, wall, n_new, getattr(drv, 'ASSUMPTIONS', []))
    report.validate_with_schema(path)
    print('%s tier=%s seed=%d: leaves=%d evaluations=%d distinct_nontrivial=%d states=%d outcomes=%d '
          'failing=%d known=%d new=%d wall=%.1fs' % (pid, tier, seed, acc.leaves, acc.evals, distinct_nt,
                                                   coverage['states'], len(acc.outcomes),
                                                   coverage['failing_cases'], len(hit), n_new, wall))
    if incomplete:
        for m in incomplete:
            print('INCOMPLETE: ' + m)
        return 2
    return 1 if n_new else 0


def replay(pid, path):
    with open(path) as f:
        doc = json.load(f)
    tier, seed = doc.get('tier', 'quick'), int(doc.get('seed', 0))
    os.environ['VERIF_TIER'] = tier
    os.environ['VERIF_SEED'] = str(seed)
    import warnings
    warnings.simplefilter('ignore')
    from vmc import env
    env.setup()
    drv = _driver(pid)
    drv.configure(tier, seed)
    if hasattr(drv, 'replay'):
        return drv.replay(doc)
    if hasattr(drv, 'worker_init'):
        drv.worker_init()
    env.assert_from_repo()
    obs = []
    for i in range(2):
        acc, labels = explore.run_single(drv.body, doc['choice_vector'])
        obs.append(json.dumps(report.jsonable({k: v[1] for k, v in acc.failures.items()}), sort_keys=True))
    if obs[0] != obs[1]:
        print('replay is not deterministic: harness error')
        return 2
    print('decisions:', ', '.join('%s=%d/%d' % l for l in labels))
    if acc.failures:
        for k, (n, recs) in acc.failures.items():
            print('REPRODUCED key=%s' % k)
            print(json.dumps(report.jsonable(recs[0]), indent=1, ensure_ascii=False))
        print('VIOLATION property=%s replay=%s' % (pid, path))
        return 1
    print('not reproduced: the leaf now satisfies the property')
    return 0


def main(argv=None):
    ap = argparse.ArgumentParser()
    ap.add_argument('pid')
    ap.add_argument('--tier', default=os.environ.get('VERIF_TIER', 'quick'), choices=['quick', 'thorough'])
    ap.add_argument('--seed', type=int, default=None)
    ap.add_argument('--replay')
    a = ap.parse_args(argv)
    seed = a.seed if a.seed is not None else int(os.environ.get('VERIF_SEED', '0') or 0)
    try:
        if a.replay:
            return replay(a.pid.upper(), a.replay)
        return run_check(a.pid.upper(), a.tier, seed)
    except explore.HarnessError as e:
        print('HARNESS-ERROR %s: %s' % (a.pid, e))
        return 2
    except Exception:
        traceback.print_exc()
        print('HARNESS-ERROR %s: unexpected exception' % a.pid)
        return 2


if __name__ == '__main__':
    sys.exit(main())
