"""Import-path construction for running the *working tree* of Recognizers-Text (not the PyPI copy
in site-packages), ownership of process-level nondeterminism, and start-up assertions.

Every process that takes part in a check calls `setup()` before importing any library module.
"""
import os
import sys

VERIF = os.path.dirname(os.path.dirname(os.path.abspath(__file__)))
REPO = os.environ.get('VERIF_REPO', '/repo')
GUARD = 'RECOGNIZERS_TEXT_VERIF'

PKG_DIRS = [
    'recognizers-text', 'recognizers-number', 'recognizers-number-with-unit',
    'recognizers-date-time', 'recognizers-sequence', 'recognizers-choice',
    'datatypes-timex-expression', 'recognizers-suite',
]
LIB_MODULES = ('recognizers_text', 'recognizers_number', 'recognizers_number_with_unit',
               'recognizers_date_time', 'recognizers_sequence', 'recognizers_choice',
               'datatypes_timex_expression', 'recognizers_suite')

_done = False


def lib_paths():
    return [os.path.join(REPO, 'Python', 'libraries', d) for d in PKG_DIRS]


def setup():
    """Idempotent.  Puts shims + the working tree's packages in front of site-packages."""
    global _done
    if _done:
        return
    os.environ[GUARD] = '1'
    cache = os.environ.get('VERIF_PYCACHE') or os.path.join(VERIF, '.cache', 'pyc')
    sys.pycache_prefix = cache
    os.environ['PYTHONPYCACHEPREFIX'] = cache
    paths = [os.path.join(VERIF, 'shims')] + lib_paths()
    for p in reversed(paths):
        if p in sys.path:
            sys.path.remove(p)
        sys.path.insert(0, p)
    if VERIF not in sys.path:
        sys.path.append(VERIF)
    for name in list(sys.modules):
        if name.split('.')[0] in LIB_MODULES:
            raise RuntimeError('library module %s imported before env.setup()' % name)
    _done = True


def assert_from_repo():
    """Hard error if any loaded library module does not come from REPO's working tree."""
    root = os.path.realpath(os.path.join(REPO, 'Python', 'libraries')) + os.sep
    bad = []
    n = 0
    for name, mod in list(sys.modules.items()):
        if name.split('.')[0] in LIB_MODULES:
            f = getattr(mod, '__file__', None)
            if f is None:
                continue
            n += 1
            if not os.path.realpath(f).startswith(root):
                bad.append((name, f))
    if bad:
        raise RuntimeError('library modules not loaded from %s: %r' % (root, bad[:5]))
    return n


def child_env(extra=None):
    """Environment for sub-processes started by a check (fresh interpreter, same import path)."""
    env = dict(os.environ)
    env['PYTHONPATH'] = os.pathsep.join([os.path.join(VERIF, 'shims')] + lib_paths() + [VERIF])
    env['PYTHONPYCACHEPREFIX'] = os.environ.get('VERIF_PYCACHE') or os.path.join(VERIF, '.cache', 'pyc')
    env.setdefault('PYTHONHASHSEED', '0')
    env[GUARD] = '1'
    env['VERIF_REPO'] = REPO
    if extra:
        env.update(extra)
    return env


def seed():
    try:
        return int(os.environ.get('VERIF_SEED', '0'))
    except ValueError:
        return 0
