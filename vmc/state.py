"""Engine E2: explicit state over the real process-wide model cache.

The state of the system is ModelFactory's class-level cache (a dict keyed by (model type, culture,
options)).  Transitions are real get_model / recognise calls on real recogniser objects.  To make
transitions cheap and observable, the constructors registered in a recogniser's *public*
model_factories dict are wrapped (harness side, no change to the library): each construction yields a
`Tagged` object that records which registered constructor built it and a serial number, and builds the
real model lazily on first parse().  Cache hits, misses, fall-backs and identity are then exact
observations."""
import itertools

_serial = itertools.count(1)
BUILT = {}        # (recognizer class name, model type, culture, options) -> real model (built once per process)


class Tagged(object):
    def __init__(self, rec_name, model_type, culture, options, ctor):
        self.key = (model_type, culture)
        self.rec_name = rec_name
        self.options = options
        self.serial = next(_serial)
        self._ctor = ctor

    def real(self):
        k = (self.rec_name, self.key[0], self.key[1], int(self.options))
        if k not in BUILT:
            BUILT[k] = self._ctor(self.options)
        return BUILT[k]

    @property
    def model_type_name(self):
        return self.real().model_type_name

    def parse(self, *a, **kw):
        return self.real().parse(*a, **kw)


def cache_dict():
    from recognizers_text.model import ModelFactory
    return ModelFactory._ModelFactory__cache


def reset_cache():
    cache_dict().clear()


def cache_keys():
    return frozenset((k.model_type, k.culture, int(k.options)) for k in cache_dict())


def make_recognizer(cls, target_culture, options, eager):
    """A real recogniser whose registered constructors are tagged.  `eager` reproduces what the constructor does when
    its lazy_initialization argument is true (it calls initialize_models() as its last step)."""
    rec = cls(target_culture, options, False)
    name = cls.__name__
    mf = rec.model_factory.model_factories
    for key in list(mf):
        real_ctor = mf[key]
        mf[key] = (lambda opts, _c=real_ctor, _k=key, _n=name: Tagged(_n, _k.model_type, _k.culture, opts, _c))
    if eager:
        rec.initialize_models()
    return rec
