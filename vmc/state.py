"""Engine E2: explicit state over the real process-wide model cache.

The state of the system is ModelFactory's class-level cache (a dict keyed by (model type, culture,
options)).  Transitions are real get_model / recognise calls on real recogniser objects.  To make
transitions cheap and observable, the constructors registered in a recogniser's *public*
model_factories dict are wrapped (harness side, no change to the library): each construction yields a
`Tagged` object that records which registered constructor built it and a serial number, and builds the
real model lazily on first parse().  Cache hits, misses, fall-backs and identity are then exact
observations."""
import itertools

_serial = itertools.count(1)
BUILT = {}        # (recognizer class name, model type, culture, options) -> real model (built once per process)


class Tagged(object):
    def __init__(self, rec_name, model_type, culture, options, ctor):
        self.key = (model_type, culture)
        self.rec_name = rec_name
        self.options = options
        self.serial = next(_serial)
        self._ctor = ctor

    def real(self):
        k = (self.rec_name, self.key[0], self.key[1], int(self.options))
        if k not in BUILT:
            BUILT[k] = self._ctor(self.options)
        return BUILT[k]

    @property
    def model_type_name(self):
        return self.real().model_type_name

    def parse(self, *a, **kw):
        return self.real().parse(*a, **kw)


def cache_dict():
    from recognizers_text.model import ModelFactory
    return ModelFactory._ModelFactory__cache


def reset_cache():
    cache_dict().clear()


def cache_keys():
    return frozenset((k.model_type, k.culture, int(k.options)) for k in cache_dict())


def make_recognizer(cls, target_culture, options, eager):
    """A real recogniser whose registered constructors are tagged.  `eager` reproduces what the constructor does when
    its lazy_initialization argument is true (it calls initialize_models() as its last step)."""
    rec = cls(target_culture, options, False)
    name = cls.__name__
    mf = rec.model_factory.model_factories
    for key in list(mf):
        real_ctor = mf[key]
        mf[key] = (lambda opts, _c=real_ctor, _k=key, _n=name: Tagged(_n, _k.model_type, _k.culture, opts, _c))
    if eager:
        rec.initialize_models()
    return rec


# ---- write monitor: structural fingerprint of the long-lived state -------------------------------

_ATOMS = (str, bytes, int, float, bool, type(None), complex)


def fingerprint(roots, lib_prefixes=('recognizers_', 'datatypes_timex')):
    """{path: value-digest} over the object graph reachable from `roots` through instances of library classes,
    dicts, lists, tuples and sets.  Compiled patterns are digested by (pattern, flags); functions and classes by
    qualified name.  Used to detect *any* write to a cached model during a parse call."""
    import decimal
    out = {}
    seen = set()
    stack = [(name, obj) for name, obj in roots]
    while stack:
        path, o = stack.pop()
        if isinstance(o, _ATOMS) or isinstance(o, decimal.Decimal):
            out[path] = repr(o)
            continue
        oid = id(o)
        if oid in seen:
            out[path] = '<shared>'
            continue
        seen.add(oid)
        t = type(o)
        mod = getattr(t, '__module__', '') or ''
        if hasattr(o, 'pattern') and hasattr(o, 'flags') and hasattr(o, 'search'):
            out[path] = 'regex:%s:%s' % (o.flags, hash(o.pattern))
        elif isinstance(o, dict):
            out[path] = 'dict:%d' % len(o)
            for k, v in o.items():
                kp = '%s[%r]' % (path, k if isinstance(k, _ATOMS) else getattr(k, 'pattern', type(k).__name__))
                stack.append((kp, v))
        elif isinstance(o, (list, tuple)):
            out[path] = '%s:%d' % (t.__name__, len(o))
            for i, v in enumerate(o):
                stack.append(('%s[%d]' % (path, i), v))
        elif isinstance(o, (set, frozenset)):
            out[path] = 'set:%d:%s' % (len(o), hash(frozenset(x if isinstance(x, _ATOMS) else type(x).__name__ for x in o)))
        elif mod.startswith(lib_prefixes) or isinstance(o, Tagged):
            out[path] = 'obj:' + t.__qualname__
            d = getattr(o, '__dict__', None)
            if d:
                for k, v in d.items():
                    stack.append((path + '.' + k, v))
            # class-level data attributes of library classes are shared by every instance (and every thread)
            for cls in t.__mro__:
                if not (getattr(cls, '__module__', '') or '').startswith(lib_prefixes) or id(cls) in seen:
                    continue
                seen.add(id(cls))
                for k, v in vars(cls).items():
                    if k.startswith('__') or callable(v) or isinstance(v, (property, staticmethod, classmethod)):
                        continue
                    stack.append(('<class %s>.%s' % (cls.__qualname__, k), v))
        elif callable(o):
            out[path] = 'callable:' + getattr(o, '__qualname__', t.__name__)
        else:
            out[path] = 'opaque:' + t.__qualname__
    return out


def diff_fingerprints(a, b, limit=5):
    changed = [k for k in a if k in b and a[k] != b[k]]
    added = [k for k in b if k not in a]
    removed = [k for k in a if k not in b]
    return {'changed': sorted(changed)[:limit], 'added': sorted(added)[:limit], 'removed': sorted(removed)[:limit],
            'n': len(changed) + len(added) + len(removed)}


def cache_roots():
    return [('cache[%s,%s,%d]' % (k.model_type, k.culture, int(k.options)), v) for k, v in cache_dict().items()]
