"""Evidence files, VIOLATION / KNOWN-FINDING lines, replay artefacts."""
import hashlib
import json
import os
import subprocess
import sys

VERIF = os.path.dirname(os.path.dirname(os.path.abspath(__file__)))
EVIDENCE_DIR = os.environ.get('VERIF_EVIDENCE_DIR') or os.path.join(VERIF, 'evidence')
REPLAY_DIR = os.environ.get('VERIF_REPLAY_DIR') or os.path.join(VERIF, 'replays')
KNOWN = os.path.join(VERIF, 'known_findings.json')
SCHEMA = '/root/.vp/EVIDENCE.schema.json'


def load_known(prop):
    """key -> entry, for the open findings of one property.  The file is never written at run time."""
    if not os.path.exists(KNOWN):
        return {}
    with open(KNOWN) as f:
        data = json.load(f)
    out = {}
    for e in data.get('findings', []):
        if e.get('property') == prop and e.get('status', 'open') == 'open':
            out[e['key']] = e
    return out


def jsonable(x, depth=0):
    if depth > 8:
        return repr(x)
    if x is None or isinstance(x, (bool, int, float, str)):
        return x
    if isinstance(x, dict):
        return {str(k): jsonable(v, depth + 1) for k, v in x.items()}
    if isinstance(x, (list, tuple, set, frozenset)):
        return [jsonable(v, depth + 1) for v in x]
    return repr(x)


def write_replay(prop, tier, seed, rec):
    os.makedirs(REPLAY_DIR, exist_ok=True)
    key = rec.get('finding_key', '')
    h = hashlib.sha1((prop + '|' + key).encode('utf-8', 'backslashreplace')).hexdigest()[:12]
    path = os.path.join(REPLAY_DIR, '%s-%s.json' % (prop, h))
    doc = {
        'property': prop, 'tier': tier, 'seed': seed,
        'finding_key': key,
        'choice_vector': rec.get('choice_vector'),
        'record': jsonable(rec),
        'how_to_replay': './check %s --replay %s' % (prop, path),
    }
    with open(path, 'w') as f:
        json.dump(doc, f, indent=1, ensure_ascii=False)
    return path


def settle(prop, tier, seed, failures, out=sys.stdout):
    """failures: key -> [count, [records]].  Prints KNOWN-FINDING / VIOLATION lines.
    Returns (n_new_classes, known_hit_list, new_list)."""
    known = load_known(prop)
    hit, new = [], []
    for key in sorted(failures):
        n, recs = failures[key]
        if key in known:
            hit.append(key)
            print('KNOWN-FINDING: property=%s %s [key=%s, %d case(s) this run]'
                  % (prop, known[key].get('description', ''), key, n), file=out)
        else:
            rec = recs[0] if recs else {'finding_key': key}
            path = write_replay(prop, tier, seed, rec)
            new.append((key, n, path))
    for key, n, path in new:
        print('VIOLATION property=%s replay=%s' % (prop, path), file=out)
        print('  key=%s cases=%d' % (key, n), file=out)
    stale = [k for k in known if k not in failures]
    for k in stale:
        print('note: listed finding not exercised or no longer reproduced in this run: %s %s' % (prop, k),
              file=sys.stderr)
    out.flush()
    return len(new), hit, new


def write_evidence(prop, tier, seed, coverage, wall_s, violations, assumptions):
    os.makedirs(EVIDENCE_DIR, exist_ok=True)
    doc = {
        'property_id': prop,
        'tier': tier,
        'seed': int(seed),
        'level': 'model_checking',
        'coverage': jsonable(coverage),
        'assumptions': list(assumptions),
        'wall_s': round(float(wall_s), 2),
        'violations': int(violations),
    }
    _validate(doc)
    path = os.path.join(EVIDENCE_DIR, '%s.json' % prop)
    tmp = path + '.tmp'
    with open(tmp, 'w') as f:
        json.dump(doc, f, indent=1, ensure_ascii=False)
    os.replace(tmp, path)
    return path


def _validate(doc):
    """Minimal structural validation in-process (jsonschema lives only in the tooling venv); a full
    jsonschema validation is done in addition when python3-vt is available."""
    cov = doc['coverage']
    for k in ('property_id', 'tier', 'seed', 'level', 'coverage', 'wall_s'):
        if k not in doc:
            raise ValueError('evidence lacks ' + k)
    if doc['tier'] not in ('quick', 'thorough'):
        raise ValueError('bad tier')
    for k in ('evaluations', 'distinct_nontrivial', 'rule', 'samples', 'states', 'transitions',
              'traces_validated_against_impl'):
        if k not in cov:
            raise ValueError('coverage lacks ' + k)
    if not cov['samples']:
        raise ValueError('coverage.samples empty')
    if cov['states'] < 1 or cov['transitions'] < 1:
        raise ValueError('empty state graph')


def validate_with_schema(path):
    exe = '/opt/veriftools/pyvenv/bin/python'
    if not (os.path.exists(exe) and os.path.exists(SCHEMA)):
        return None
    code = ('import json,sys,jsonschema;'
            'jsonschema.validate(json.load(open(sys.argv[1])), json.load(open(sys.argv[2])))')
    r = subprocess.run([exe, '-c', code, path, SCHEMA], capture_output=True, text=True)
    if r.returncode != 0:
        raise ValueError('evidence does not validate: ' + r.stderr[-2000:])
    return True


def dump_failures(prop, tier, seed, failures):
    """Side file for triage (git-ignored, never read by a check): every failure class of the last run."""
    os.makedirs(REPLAY_DIR, exist_ok=True)
    doc = {'property': prop, 'tier': tier, 'seed': seed,
           'failures': {k: {'cases': n, 'example': jsonable(recs[0]) if recs else None}
                        for k, (n, recs) in sorted(failures.items())}}
    with open(os.path.join(REPLAY_DIR, '%s.last_failures.json' % prop), 'w') as f:
        json.dump(doc, f, indent=1, ensure_ascii=False)
